"""Transcendental / algebraic scalar functions on symbolic values.

sqrt : fresh r >= 0 with r*r == x (exact; radicand remembered so r**2 is x).
log, exp, erfc : fresh result variable per application with axioms instantiated
      pairwise over the applications seen on the current path (monotonicity,
      functional consistency, inverse links, sign/range facts).  This is an
      over-approximation of the real functions: 'unsat' under the axioms holds
      for the real functions; a model may be spurious and is filtered by replay.
"""
import math

import numpy as _np
import z3

from .engine import Engine, PathAbort, real_val
from .values import SV, lift


def s_sqrt(x):
    if isinstance(x, SV):
        eng = Engine.cur
        neg = x < 0
        if neg:
            return math.nan
        r = eng.z3_real("sqrt")
        eng.assume(z3.And(r >= 0, r * r == x.e))
        return SV(r, sq=x.e)
    with _np.errstate(all="ignore"):
        return float(_np.sqrt(_np.float64(x)))


def _ax(eng, kind, arg, res, increasing=True):
    apps = eng.uf_apps.setdefault(kind, [])
    for (a2, r2) in apps:
        if increasing:
            eng.assume(z3.And(z3.Implies(arg < a2, res < r2), z3.Implies(arg > a2, res > r2),
                              z3.Implies(arg == a2, res == r2)))
        else:
            eng.assume(z3.And(z3.Implies(arg < a2, res > r2), z3.Implies(arg > a2, res < r2),
                              z3.Implies(arg == a2, res == r2)))
    apps.append((arg, res))
    for (c, lo, hi) in eng.uf_apps.get(kind + "$anchor", []):
        _anchor_ax(eng, arg, res, c, lo, hi, increasing)


def _anchor(kind, c, r, increasing=True):
    """a concrete application f(c) = r (computed in floating point, so only known up to a few ulp) becomes an
    anchor: later symbolic applications are ordered against it with that slack (sound over-approximation)."""
    eng = Engine.cur
    if eng is None or eng.concrete or not (math.isfinite(c) and math.isfinite(r)):
        return
    d = 0.0  # the model function agrees with the floating-point value at concrete arguments (see DESIGN 2.2)
    eng.uf_apps.setdefault(kind + "$anchor", []).append((real_val(c), real_val(r - d), real_val(r + d)))
    for (a2, r2) in eng.uf_apps.get(kind, []):
        _anchor_ax(eng, a2, r2, real_val(c), real_val(r - d), real_val(r + d), increasing)


def _anchor_ax(eng, arg, res, c, lo, hi, increasing):
    if increasing:
        eng.assume(z3.And(z3.Implies(arg < c, res < hi), z3.Implies(arg > c, res > lo), z3.Implies(arg == c, z3.And(res >= lo, res <= hi))))
    else:
        eng.assume(z3.And(z3.Implies(arg < c, res > lo), z3.Implies(arg > c, res < hi), z3.Implies(arg == c, z3.And(res >= lo, res <= hi))))


def s_log(x):
    if isinstance(x, SV):
        eng = Engine.cur
        if not (x > 0):
            if x == 0:
                return -math.inf
            return math.nan
        r = eng.z3_real("log")
        _ax(eng, "log", x.e, r)
        for (a2, r2) in eng.uf_apps.get("exp", []):
            eng.assume(z3.Implies(x.e == r2, r == a2))
        eng.assume(z3.And(z3.Implies(x.e == 1, r == 0), z3.Implies(x.e > 1, r > 0), z3.Implies(x.e < 1, r < 0)))
        return SV(r)
    with _np.errstate(all="ignore"):
        r = float(_np.log(_np.float64(x)))
    _anchor("log", float(x), r)
    return r


def s_exp(x):
    if isinstance(x, SV):
        eng = Engine.cur
        r = eng.z3_real("exp")
        _ax(eng, "exp", x.e, r)
        for (a2, r2) in eng.uf_apps.get("log", []):
            eng.assume(z3.Implies(x.e == r2, r == a2))
        eng.assume(z3.And(r > 0, z3.Implies(x.e == 0, r == 1), z3.Implies(x.e > 0, r > 1), z3.Implies(x.e < 0, r < 1)))
        return SV(r)
    with _np.errstate(all="ignore"):
        r = float(_np.exp(_np.float64(x)))
    _anchor("exp", float(x), r)
    return r


def s_erfc(x):
    if isinstance(x, SV):
        eng = Engine.cur
        r = eng.z3_real("erfc")
        _ax(eng, "erfc", x.e, r, increasing=False)
        eng.assume(z3.And(r > 0, r < 2, z3.Implies(x.e == 0, r == 1), z3.Implies(x.e > 0, r < 1), z3.Implies(x.e < 0, r > 1)))
        return SV(r)
    from scipy.special import erfc
    return float(erfc(x))
