"""Transcendental / algebraic scalar functions on symbolic values.

sqrt : fresh r >= 0 with r*r == x (exact; radicand remembered so r**2 is x).
log, exp, erfc : fresh result variable per application with axioms instantiated
      pairwise over the applications seen on the current path (monotonicity,
      functional consistency, inverse links, sign/range facts).  This is an
      over-approximation of the real functions: 'unsat' under the axioms holds
      for the real functions; a model may be spurious and is filtered by replay.
"""
import math

import numpy as _np
import z3

from .engine import Engine, PathAbort
from .values import SV, lift


def s_sqrt(x):
    if isinstance(x, SV):
        eng = Engine.cur
        neg = x < 0
        if neg:
            return math.nan
        r = eng.z3_real("sqrt")
        eng.assume(z3.And(r >= 0, r * r == x.e))
        return SV(r, sq=x.e)
    with _np.errstate(all="ignore"):
        return float(_np.sqrt(_np.float64(x)))


def _ax(eng, kind, arg, res, increasing=True):
    apps = eng.uf_apps.setdefault(kind, [])
    for (a2, r2) in apps:
        if increasing:
            eng.assume(z3.And(z3.Implies(arg < a2, res < r2), z3.Implies(arg > a2, res > r2),
                              z3.Implies(arg == a2, res == r2)))
        else:
            eng.assume(z3.And(z3.Implies(arg < a2, res > r2), z3.Implies(arg > a2, res < r2),
                              z3.Implies(arg == a2, res == r2)))
    apps.append((arg, res))


def s_log(x):
    if isinstance(x, SV):
        eng = Engine.cur
        if not (x > 0):
            if x == 0:
                return -math.inf
            return math.nan
        r = eng.z3_real("log")
        _ax(eng, "log", x.e, r)
        for (a2, r2) in eng.uf_apps.get("exp", []):
            eng.assume(z3.Implies(x.e == r2, r == a2))
        eng.assume(z3.And(z3.Implies(x.e == 1, r == 0), z3.Implies(x.e > 1, r > 0), z3.Implies(x.e < 1, r < 0)))
        return SV(r)
    with _np.errstate(all="ignore"):
        return float(_np.log(_np.float64(x)))


def s_exp(x):
    if isinstance(x, SV):
        eng = Engine.cur
        r = eng.z3_real("exp")
        _ax(eng, "exp", x.e, r)
        for (a2, r2) in eng.uf_apps.get("log", []):
            eng.assume(z3.Implies(x.e == r2, r == a2))
        eng.assume(z3.And(r > 0, z3.Implies(x.e == 0, r == 1), z3.Implies(x.e > 0, r > 1), z3.Implies(x.e < 0, r < 1)))
        return SV(r)
    with _np.errstate(all="ignore"):
        return float(_np.exp(_np.float64(x)))


def s_erfc(x):
    if isinstance(x, SV):
        eng = Engine.cur
        r = eng.z3_real("erfc")
        _ax(eng, "erfc", x.e, r, increasing=False)
        eng.assume(z3.And(r > 0, r < 2, z3.Implies(x.e == 0, r == 1), z3.Implies(x.e > 0, r < 1), z3.Implies(x.e < 0, r > 1)))
        return SV(r)
    from scipy.special import erfc
    return float(erfc(x))
