from .engine import Engine, PathAbort, ReplayMismatch, Infeasible, real_val
from .values import SV, SB, SIdx, lift, bexpr, mkbool, s_max, s_min, is_sym
from .arrays import SymArray, npx, npc, sym_array, to_obj, arr1, obj_array, _post, _raw
from .rebind import Rebinder
from . import ufs, ob
