"""Path exploration, obligation discharge, replay, cross-validation."""
import time
import traceback
import hashlib
import json
from fractions import Fraction

import z3

from .engine import Engine, PathAbort, ReplayMismatch, Infeasible, model_to_json
from . import ob as O


class HarnessBug(BaseException):
    """an exception raised by harness / oracle code (not by the unit under analysis)"""


class Out:
    """What a harness case returns for one path."""

    def __init__(self):
        self.obs = []      # (label, cond)
        self.tag = None    # JSON-able summary of the path outcome (same in symbolic and concrete mode)
        self.observe = {}  # name -> value (compared between symbolic model value and concrete replay)
        self.notes = []

    def ob(self, label, cond):
        self.obs.append((label, cond))

    def all(self, label, conds):
        for c in conds:
            self.obs.append((label, c))


def _run_case(case, eng):
    prev = Engine.cur
    Engine.cur = eng
    try:
        return case(eng), None
    except (PathAbort, ReplayMismatch, Infeasible):
        raise
    except Exception as e:  # undeclared exception escaping the unit
        tb = traceback.extract_tb(e.__traceback__)
        if not any("/repo/" in f.filename or f.filename.startswith("<") for f in tb):
            # raised by harness/oracle code, not by the unit under analysis: a harness bug, never a finding
            raise HarnessBug(f"{type(e).__name__}: {e} @ " + " <- ".join(f"{f.filename.rsplit('/', 1)[-1]}:{f.lineno}" for f in tb[-3:])) from e
        return None, e
    finally:
        Engine.cur = prev


def _exc_sig(e):
    tb = traceback.extract_tb(e.__traceback__)
    frames = [f"{f.filename.rsplit('/', 1)[-1]}:{f.name}:{f.lineno}" for f in tb if "/repo/" in f.filename or "<" in f.filename]
    return {"type": type(e).__name__, "msg": str(e)[:200], "where": frames[-3:]}


def _signed_zero_variant(model, variant):
    """the model with every other zero-valued real input replaced by -0.0 (variant 0: even positions, 1: odd)"""
    names = sorted(k for k, v in model.items() if isinstance(v, (int, float, Fraction)) and not isinstance(v, bool) and v == 0
                   and "!i" not in k and not k.startswith(("rint!", "perm!", "choose")))
    names = [k for k in names if not _is_int_var(k, model)]
    if not names:
        return None
    m2 = dict(model)
    changed = False
    for i, k in enumerate(names):
        if i % 2 == variant:
            m2[k] = -0.0
            changed = True
    return m2 if changed else None


def _is_int_var(name, model):
    v = model[name]
    return isinstance(v, int) and not isinstance(v, bool)


def concrete_run(case, model):
    """run the harness concretely (real functions, plain NumPy) on a model"""
    eng = Engine(model=model)
    try:
        out, exc = _run_case(case, eng)
    except ReplayMismatch as e:
        return {"status": "mismatch", "why": str(e), "missing": eng.missing}
    except PathAbort as e:
        return {"status": "abort", "why": str(e)}
    if exc is not None:
        return {"status": "exception", "exc": _exc_sig(exc), "events": eng.events, "missing": eng.missing}
    verdicts = {}
    for label, cond in out.obs:
        t = O.truth(cond)
        if t is None:
            t = True
        verdicts.setdefault(label, True)
        if not t:
            verdicts[label] = False
    return {"status": "ok", "tag": out.tag, "verdicts": verdicts, "observe": {k: _f(v) for k, v in out.observe.items()},
            "events": eng.events, "missing": eng.missing}


def _f(v):
    try:
        import numpy as np
        if isinstance(v, np.ndarray):
            return [_f(x) for x in v.reshape(-1)]
        if isinstance(v, (bool, np.bool_)):
            return bool(v)
        if v is None:
            return None
        return float(v)
    except Exception:
        return repr(v)


def _models(eng, extra, timeout_ms=1500):
    """Model candidates for replays, in order of preference: real inputs that are multiples of 2^-10 with
    |v| <= 1024, the same with |v| <= 2^20 (exactly representable and well inside float range, so that the
    floating-point replay follows the same path), then any model."""
    s = eng.solver
    inputs = [(name, v) for name, v in list(eng.vars.items()) if "!" not in name and z3.is_real(v)]
    # values produced by harness stubs (fresh reals "name!N"; engine-internal ones are "name!iN") reach the real code
    # in a replay like inputs do: prefer models in which they are exactly representable as well, so that float
    # subtraction of two of them cannot flip a comparison that is a tie in exact arithmetic
    import re as _re
    stub_vals = [(name, v) for name, v in list(eng.vars.items()) if _re.search(r"![0-9]+$", name) and z3.is_real(v)]
    for bound, vs, gran in ((1024, inputs + stub_vals, 1024), (1024, inputs, 1024), (1024, inputs, 2 ** 24), (2 ** 20, inputs, 1024)):
        if vs is not inputs and not stub_vals:
            continue
        # the solver scope is closed again BEFORE the candidate is handed out: a suspended generator must not own a
        # scope (its finaliser once ran s.pop() from the cyclic garbage collector on a later path -> segfault in z3)
        m_ = None
        s.push()
        try:
            s.set("timeout", timeout_ms)
            for name, v in vs:
                k = z3.Int("dy$" + name)
                s.add(v * gran == z3.ToReal(k))
                b_ = bound if "!" not in name else 2 ** 20
                s.add(v >= -b_, v <= b_)
            r = s.check(*extra)
            if r == z3.sat:
                m_ = eng.extract_model(s.model())
        finally:
            s.pop()
            s.set("timeout", eng_timeout(eng))
        if m_ is not None:
            eng.last_model_dyadic = True
            yield m_
    r = eng.check(*extra)
    eng.last_model_dyadic = False
    if r == z3.sat:
        yield eng.extract_model(eng.solver.model())
    elif r == z3.unknown:
        eng.model_unknown = True


MARGIN = 2.0 ** -26


def margin(c, neg=False):
    """c (or Not c when neg) strengthened so that every comparison between reals holds with an absolute slack of
    MARGIN: a model of the strengthened path condition makes the same decisions when the arithmetic is carried out in
    double precision (inputs are bounded by 2^20, where one rounding is < 2^-32).  Integer comparisons, equalities and
    Boolean atoms are kept as they are."""
    from .engine import real_val
    eps = real_val(MARGIN)
    if z3.is_not(c):
        return margin(c.arg(0), not neg)
    if z3.is_and(c) or z3.is_or(c):
        parts = [margin(a, neg) for a in c.children()]
        return z3.And(*parts) if (z3.is_and(c) != neg) else z3.Or(*parts)
    k = c.decl().kind()
    if k in (z3.Z3_OP_LE, z3.Z3_OP_LT, z3.Z3_OP_GE, z3.Z3_OP_GT) and z3.is_real(c.arg(0)):
        a, b = c.arg(0), c.arg(1)
        if k in (z3.Z3_OP_GE, z3.Z3_OP_GT):
            a, b = b, a                       # now: a <(=) b
        if not neg:
            return a + eps <= b
        return b + eps <= a                   # not (a <(=) b)
    if k in (z3.Z3_OP_EQ, z3.Z3_OP_DISTINCT) and c.num_args() == 2 and z3.is_real(c.arg(0)):
        a, b = c.arg(0), c.arg(1)
        differ = (k == z3.Z3_OP_DISTINCT) != neg
        if differ:
            return z3.Or(a + eps <= b, b + eps <= a)
        return a == b
    return z3.Not(c) if neg else c


def margins(eng):
    out = []
    for c in getattr(eng, "decisions", []):
        try:
            out.append(margin(c))
        except Exception:
            out.append(c)
    return out


def _dyadic_model(eng, extra, timeout_ms=4000, float_safe_only=False):
    """first model candidate; with float_safe_only only the dyadic, bounded candidates (whose conversion to floats
    is exact) are accepted"""
    n = 0
    for m in _models(eng, extra, timeout_ms):
        n += 1
        if float_safe_only and n > 4:
            return None
        if float_safe_only and not getattr(eng, "last_model_dyadic", False):
            return None
        return m
    return None


def eng_timeout(eng):
    return getattr(eng, "timeout_ms", 20000)


def second_solver_check(eng, neg, limit_ms=5000):
    """re-decide `path condition AND NOT obligation` with cvc5 (SMT-LIB2 export of the z3 assertions).
    Returns 'unsat' | 'sat' | 'unknown' | 'error'."""
    try:
        import cvc5
        s2 = z3.Solver()
        s2.add(eng.solver.assertions())
        s2.add(*neg)
        txt = s2.to_smt2()
        slv = cvc5.Solver()
        slv.setOption("tlimit-per", str(limit_ms))
        slv.setLogic("ALL")
        prs = cvc5.InputParser(slv)
        prs.setStringInput(cvc5.InputLanguage.SMT_LIB_2_6, txt, "q")
        sm = prs.getSymbolManager()
        ans = "unknown"
        while True:
            cmd = prs.nextCommand()
            if cmd.isNull():
                break
            out = str(cmd.invoke(slv, sm)).strip()
            if out in ("sat", "unsat", "unknown"):
                ans = out
        return ans
    except Exception as e:
        return "error"


def known_class_expr(eng, expr_src):
    """z3 Bool describing the witness class of a known finding, over the path's variables.  expr_src is one
    expression or a list of alternatives; alternatives naming variables that do not exist on this path (e.g. a
    coordinate whose bound is infinite) are skipped.  Returns None when no class is given at all."""
    if expr_src is None:
        return None
    from .engine import real_val

    def v(name, fallback=None):
        if name in eng.vars:
            return eng.vars[name]
        if fallback is not None and fallback in eng.vars:
            return eng.vars[fallback]
        raise KeyError(name)
    env = {"v": v, "And": z3.And, "Or": z3.Or, "Not": z3.Not, "If": z3.If, "Implies": z3.Implies, "F": real_val}
    alts = []
    for src in (expr_src if isinstance(expr_src, list) else [expr_src]):
        try:
            alts.append(eval(src, env))
        except KeyError:
            continue
    if not alts:
        return z3.BoolVal(False)
    return z3.Or(*alts)


def explore(case, roots=None, max_paths=10**9, deadline=None, timeout_ms=20000, xval=2, known=(), seed=0,
            stop_on_violation=False, labels=None, second_solver_every=0):
    """Explore the subtrees below the given decision prefixes.
    Returns a JSON-able result dict; 'leftover' holds unexplored prefixes when max_paths/deadline hit."""
    t0 = time.time()
    work = [list(r) for r in (roots if roots is not None else [[]])]
    res = dict(paths=0, feasible=0, infeasible=0, queries=0, solver_s=0.0, unknown=0, aborted=0, abort_reasons={},
               ob_queries=0, discharged=0, trivially_true=0, labels={}, violations=[], known_hits=[], spurious=[],
               tags={}, xval_ok=0, xval_fail=[], samples=[], exceptions={}, forks=0)
    xval_done = 0
    xval_attempts = 0
    viol_per_label = {}
    known_replayed = {}
    known_attempts = {}
    while work:
        if res["paths"] >= max_paths or (deadline is not None and time.time() > deadline):
            break
        prefix = work.pop()
        eng = Engine(prefix, timeout_ms)
        eng.timeout_ms = timeout_ms
        out = exc = None
        aborted = None
        try:
            out, exc = _run_case(case, eng)
        except PathAbort as e:
            tb = traceback.extract_tb(e.__traceback__)
            aborted = str(e) + " @ " + " <- ".join(f"{f.name}:{f.lineno}" for f in tb[-3:])
        except Infeasible:
            res["infeasible"] += 1
            work.extend(eng.work)
            res["paths"] += 1
            res["queries"] += eng.n_queries
            res["solver_s"] += eng.solver_s
            continue
        work.extend(eng.work)
        res["forks"] += eng.forks
        res["paths"] += 1
        if aborted is not None:
            res["aborted"] += 1
            res["abort_reasons"][aborted] = res["abort_reasons"].get(aborted, 0) + 1
            res["queries"] += eng.n_queries
            res["solver_s"] += eng.solver_s
            continue
        r = eng.check()
        if r == z3.unsat:
            res["infeasible"] += 1
            res["queries"] += eng.n_queries
            res["solver_s"] += eng.solver_s
            continue
        if r == z3.unknown:
            res["aborted"] += 1
            res["abort_reasons"]["unknown at end of path"] = res["abort_reasons"].get("unknown at end of path", 0) + 1
            res["queries"] += eng.n_queries
            res["solver_s"] += eng.solver_s
            continue
        res["feasible"] += 1
        obligations = []
        if exc is not None:
            sig = _exc_sig(exc)
            key = sig["type"] + "@" + (sig["where"][-1] if sig["where"] else "?")
            res["exceptions"][key] = res["exceptions"].get(key, 0) + 1
            obligations.append(("no_unexpected_exception", False, sig))
            tag = ["EXC", sig["type"]]
        else:
            tag = out.tag
            for label, cond in out.obs:
                if labels is None or label in labels:      # only the obligations that belong to the property being decided
                    obligations.append((label, cond, None))
        tkey = json.dumps(tag, default=str)
        res["tags"][tkey] = res["tags"].get(tkey, 0) + 1
        path_violated = False
        for label, cond, info in obligations:
            L = res["labels"].setdefault(label, dict(reached=0, discharged=0, violated=0))
            L["reached"] += 1
            c = O.C(cond)
            if isinstance(c, bool):
                if c:
                    res["trivially_true"] += 1
                    L["discharged"] += 1
                    continue
                neg = []
            else:
                neg = [z3.Not(c)]
                res["ob_queries"] += 1
                rr = eng.check(*neg)
                if rr == z3.unsat:
                    res["discharged"] += 1
                    L["discharged"] += 1
                    if second_solver_every and (res["discharged"] - 1) % second_solver_every == 0:
                        a2 = second_solver_check(eng, neg)
                        res["second_solver_" + a2] = res.get("second_solver_" + a2, 0) + 1
                        if a2 == "sat":
                            res.setdefault("second_solver_disagreements", []).append(dict(label=label, tag=tag))
                    continue
                if rr == z3.unknown:
                    res["unknown"] += 1
                    continue
            # candidate violation ------------------------------------------------------
            if viol_per_label.get(label, 0) >= 3:
                # this obligation has already been violated and replayed three times in this job: count, do not search again
                res["more_violations_not_replayed"] = res.get("more_violations_not_replayed", 0) + 1
                L["violated"] += 1
                path_violated = True
                continue
            kmatch = None
            for kf in known:
                if kf.get("obligation") == label:
                    kmatch = kf
                    break
            def try_models(extra):
                rec_ = None
                import itertools as _it
                marg_ = margins(eng)
                cands = _it.chain(_it.islice(_models(eng, list(extra) + marg_), 1), _models(eng, extra)) if marg_ else _models(eng, extra)
                for model in cands:
                    rep = concrete_run(case, model)
                    if info is not None:
                        ok_ = rep["status"] == "exception" and rep["exc"]["type"] == info["type"]
                    else:
                        ok_ = rep["status"] == "ok" and rep["verdicts"].get(label) is False
                    rec_ = dict(label=label, model=model_to_json(model), prefix=eng.trace, tag=tag, replay=rep, exc=info,
                                reproduced=ok_)
                    if not ok_:
                        rec_["model_exact"] = {k: str(v) for k, v in model.items()}
                    if ok_:
                        break
                return rec_
            is_known = False
            rec = None
            if kmatch is not None:
                kc = known_class_expr(eng, kmatch.get("witness_class_z3"))
                if kc is not None:
                    rk = eng.check(*(neg + [z3.Not(kc)]))
                    if rk == z3.unknown:
                        res["unknown"] += 1
                        continue
                    if rk == z3.sat:
                        rec = try_models(neg + [z3.Not(kc)])   # outside the listed witness class: a new violation
                    else:
                        is_known = True
                else:
                    is_known = True
            if is_known and known_replayed.get(kmatch.get("id"), 0) < 2 and known_attempts.get(kmatch.get("id"), 0) >= 6:
                # inside the witness class of a listed finding; enough replay attempts have been spent on it in this job
                res["known_unreplayed"] = res.get("known_unreplayed", 0) + 1
                L["violated"] += 1
                path_violated = True
                continue
            if is_known:
                known_attempts[kmatch.get("id")] = known_attempts.get(kmatch.get("id"), 0) + 1
            if is_known and known_replayed.get(kmatch.get("id"), 0) >= 2:
                # the listed finding has already been re-derived and replayed in this job
                L["violated"] += 1
                path_violated = True
                res["known_hits"].append(dict(label=label, known=kmatch.get("id")))
                continue
            if rec is None:
                rec = try_models(neg)
            if rec is None:
                res["unknown"] += 1
                continue
            reproduced = rec["reproduced"]
            if reproduced and is_known:
                known_replayed[kmatch.get("id")] = known_replayed.get(kmatch.get("id"), 0) + 1
            if not reproduced and is_known:
                # a path inside the witness class of a listed finding whose model does not survive the conversion to
                # floats: neither a new violation nor a re-derivation
                res["known_unreplayed"] = res.get("known_unreplayed", 0) + 1
                L["violated"] += 1
                path_violated = True
                continue
            if not reproduced:
                res["spurious"].append(rec)
                continue
            L["violated"] += 1
            path_violated = True
            if is_known:
                rec["known"] = kmatch.get("id")
                if len(res["known_hits"]) < 20:
                    res["known_hits"].append(rec)
                else:
                    res["known_hits"].append(dict(label=label, known=kmatch.get("id")))
            else:
                res["violations"].append(rec)
                viol_per_label[label] = viol_per_label.get(label, 0) + 1
        # path-model cross validation of the encoding (and reachability twin) --------
        if not path_violated and exc is None and xval_done < xval and xval_attempts < xval + 2 and res.get("xval_skipped_no_float_safe_model", 0) < 2:
            xval_done += 1
            xval_attempts += 1
            # prefer a model that takes every decision of the path with a margin (robust against float rounding)
            marg = margins(eng)
            model = _dyadic_model(eng, marg, timeout_ms=1500, float_safe_only=True) if marg else None
            robust = model is not None
            if model is None:
                model = _dyadic_model(eng, [], float_safe_only=True)
            if model is None:
                res["xval_skipped_no_float_safe_model"] = res.get("xval_skipped_no_float_safe_model", 0) + 1
                xval_done -= 1
            if model is not None:
                rep = concrete_run(case, model)
                okx = rep["status"] == "ok" and json.dumps(rep["tag"], default=str) == tkey and all(rep["verdicts"].values())
                if okx:
                    # observed values agree with the model's evaluation of the symbolic terms
                    for k, v in out.observe.items():
                        pass
                    res["xval_ok"] += 1
                    # signed-zero twins: the real-arithmetic model has one zero, floats have two.  Replay the same model
                    # with every other zero-valued real input negated (two complementary patterns); the obligations are
                    # numeric, so a twin that falsifies one is a counterexample of the real code found by replay
                    for variant in (0, 1):
                        m2 = _signed_zero_variant(model, variant)
                        if m2 is None:
                            continue
                        rep2 = concrete_run(case, m2)
                        res["signed_zero_replays"] = res.get("signed_zero_replays", 0) + 1
                        bad2 = rep2["status"] == "exception" or (rep2["status"] == "ok" and not all(rep2["verdicts"].values()))
                        if not bad2:
                            continue
                        if rep2["status"] == "exception":
                            lab2, info2 = "no_unexpected_exception", rep2["exc"]
                        else:
                            lab2, info2 = [l for l, t in rep2["verdicts"].items() if not t][0], None
                        if labels is not None and lab2 not in labels and lab2 != "no_unexpected_exception":
                            continue
                        L2 = res["labels"].setdefault(lab2, dict(reached=0, discharged=0, violated=0))
                        L2["reached"] += 1
                        L2["violated"] += 1
                        res["violations"].append(dict(label=lab2, model=model_to_json(m2), prefix=eng.trace, tag=rep2.get("tag", tag), replay=rep2,
                                                      exc=info2, reproduced=True, found_by="signed-zero replay"))
                        break
                    if len(res["samples"]) < 3:
                        res["samples"].append(dict(inputs={k: v for k, v in list(model_to_json(model).items())[:24]}, tag=tag,
                                                   obligations=sorted({l for l, _, _ in obligations}),
                                                   decisions=len(eng.trace)))
                elif eng.uf_apps or any(n.startswith("sqrt!") for n in eng.vars):
                    # log/exp/erfc are over-approximated; square roots are irrational: the float replay may leave the path: a model of the axioms need not be a run of the real functions
                    res["xval_uf_skipped"] = res.get("xval_uf_skipped", 0) + 1
                elif rep["status"] == "exception" or (rep["status"] == "ok" and not all(rep["verdicts"].values())):
                    # the real code, run under plain NumPy on inputs that satisfy the harness assumptions, fails although
                    # the encoding saw nothing (e.g. a value-kind effect the real-arithmetic model abstracts): a
                    # counterexample found by the replay itself
                    if rep["status"] == "exception":
                        lab, info_ = "no_unexpected_exception", rep["exc"]
                    else:
                        lab, info_ = [l for l, t in rep["verdicts"].items() if not t][0], None
                    L = res["labels"].setdefault(lab, dict(reached=0, discharged=0, violated=0))
                    L["reached"] += 1
                    L["violated"] += 1
                    k_ = [kf for kf in known if kf.get("obligation") == lab and not kf.get("witness_class_z3")]
                    rec_ = dict(label=lab, model=model_to_json(model), prefix=eng.trace, tag=rep.get("tag", tag), replay=rep, exc=info_,
                                reproduced=True, found_by="replay")
                    if k_:
                        rec_["known"] = k_[0].get("id")
                        res["known_hits"].append(rec_)
                    else:
                        res["violations"].append(rec_)
                elif not robust:
                    # the path is only feasible with some real comparison at (or within 2^-26 of) a tie: the float replay
                    # may legitimately decide it the other way; neither agreement nor mismatch
                    res["xval_tie_skipped"] = res.get("xval_tie_skipped", 0) + 1
                    xval_done -= 1
                else:
                    res["xval_fail"].append(dict(model=model_to_json(model), sym_tag=tag, replay=rep))
        res["queries"] += eng.n_queries
        res["solver_s"] += eng.solver_s
        if stop_on_violation and res["violations"]:
            break
    res["leftover"] = work
    res["exhausted"] = not work
    res["wall_s"] = time.time() - t0
    return res


def merge(a, b):
    """merge result b into a"""
    for k in ("paths", "feasible", "infeasible", "queries", "solver_s", "unknown", "aborted", "ob_queries", "discharged",
              "trivially_true", "xval_ok", "forks", "wall_s", "xval_uf_skipped", "known_unreplayed", "xval_skipped_no_float_safe_model", "xval_tie_skipped",
              "second_solver_unsat", "second_solver_sat", "second_solver_unknown", "second_solver_error", "more_violations_not_replayed"):
        a[k] = a.get(k, 0) + b.get(k, 0)
    for k in ("abort_reasons", "tags", "exceptions"):
        d = a.setdefault(k, {})
        for kk, v in b.get(k, {}).items():
            d[kk] = d.get(kk, 0) + v
    la = a.setdefault("labels", {})
    for l, d in b.get("labels", {}).items():
        t = la.setdefault(l, dict(reached=0, discharged=0, violated=0))
        for kk in t:
            t[kk] += d[kk]
    for k in ("violations", "known_hits", "spurious", "xval_fail", "second_solver_disagreements"):
        a.setdefault(k, []).extend(b.get(k, []))
    s = a.setdefault("samples", [])
    if len(s) < 4:
        s.extend(b.get("samples", [])[: 4 - len(s)])
    return a


def model_hash(model):
    return hashlib.sha1(json.dumps(model, sort_keys=True, default=str).encode()).hexdigest()[:12]
