"""numpy object arrays of symbolic scalars + a proxy 'np' module.

Shapes, broadcasting, slicing, stacking are NumPy's own (the arrays are real
numpy.ndarray objects of dtype object); only element arithmetic, comparisons and
the data-dependent routines (sort, unique, argmin, any/all, round, ...) are
implemented here on z3 terms.
"""
import functools
import math
import operator as op
import types

import numpy as _np
import z3

from .engine import Engine, PathAbort
from .values import SV, SB, SIdx, lift, bexpr, mkbool, s_max, s_min, s_fmax, s_fmin, is_sym, _is_special
from . import ufs


def _raw(x):
    return x.view(_np.ndarray) if isinstance(x, SymArray) else x


def _has_sym_elems(a):
    return any(isinstance(v, (SV, SB, SIdx)) for v in a.ravel())


def _post(res):
    """object result -> bool array if all elements are concrete bools (so that it can index any array), else a
    SymArray.  Arrays that took part in a symbolic computation stay SymArrays even when all their elements happen
    to be concrete: a later boolean mask with symbolic entries can then still index them."""
    if not isinstance(res, _np.ndarray):
        return res
    if res.dtype != object:
        return res.view(_np.ndarray) if isinstance(res, SymArray) else res
    res = _raw(res)
    flat = res.ravel()
    if len(flat) and all(isinstance(v, (bool, _np.bool_)) for v in flat):
        return res.astype(bool)
    return res.view(SymArray)


def to_concrete(res):
    """all-concrete SymArray -> float array (used at the boundary to code that needs native arrays)"""
    a = _raw(res)
    if isinstance(a, _np.ndarray) and a.dtype == object and not _has_sym_elems(a):
        try:
            return a.astype(float)
        except (TypeError, ValueError):
            return a
    return a


def arr1(vals):
    a = _np.empty((len(vals),), dtype=object)
    for i, v in enumerate(vals):
        a[i] = v
    return _post(a)


def obj_array(shape, fill):
    a = _np.empty(shape, dtype=object)
    a.fill(fill)
    return a.view(SymArray)


def _unbox(v):
    if isinstance(v, _np.bool_):
        return v
    if isinstance(v, _np.generic):
        return v.item()
    return v


def _inv(x):
    if isinstance(x, (bool, _np.bool_)):
        return _np.bool_(not x)
    if isinstance(x, SB):
        return ~x
    if isinstance(x, SV):
        raise PathAbort("bitwise invert of a symbolic number")
    return ~x


def _and(a, b):
    if isinstance(a, SB) or isinstance(b, SB):
        return mkbool(z3.And(bexpr(a), bexpr(b)))
    return a & b


def _or(a, b):
    if isinstance(a, SB) or isinstance(b, SB):
        return mkbool(z3.Or(bexpr(a), bexpr(b)))
    return a | b


def _native2(uf):
    def f(a, b):
        with _np.errstate(all="ignore"):
            return uf(a, b)
    return f


def _sym2(pyop, uf):
    nat = _native2(uf)

    def f(a, b):
        if isinstance(a, (SV, SB, SIdx)) or isinstance(b, (SV, SB, SIdx)):
            r = pyop(a, b)
            if r is NotImplemented:
                raise PathAbort(f"unsupported operand types for {uf.__name__}: {type(a)}, {type(b)}")
            return r
        return _unbox(nat(a, b))
    return f


_BIN = {
    "add": _sym2(op.add, _np.add), "subtract": _sym2(op.sub, _np.subtract),
    "multiply": _sym2(op.mul, _np.multiply),
    "true_divide": _sym2(op.truediv, _np.true_divide), "divide": _sym2(op.truediv, _np.true_divide),
    "floor_divide": _sym2(op.floordiv, _np.floor_divide),
    "remainder": _sym2(op.mod, _np.remainder), "mod": _sym2(op.mod, _np.remainder),
    "greater": _sym2(op.gt, _np.greater), "less": _sym2(op.lt, _np.less),
    "greater_equal": _sym2(op.ge, _np.greater_equal), "less_equal": _sym2(op.le, _np.less_equal),
    "equal": _sym2(op.eq, _np.equal), "not_equal": _sym2(op.ne, _np.not_equal),
    "maximum": s_max, "minimum": s_min, "fmax": s_fmax, "fmin": s_fmin,
    "bitwise_or": _or, "bitwise_and": _and, "logical_or": _or, "logical_and": _and,
    "power": _sym2(op.pow, _np.power),
}


def _sym1(symf, uf):
    def f(x):
        if isinstance(x, (SV, SB, SIdx)):
            return symf(x)
        with _np.errstate(all="ignore"):
            return _unbox(uf(x))
    return f


def _sign(x):
    return SV(z3.simplify(z3.If(x.e > 0, z3.RealVal(1), z3.If(x.e < 0, z3.RealVal(-1), z3.RealVal(0)))), is_int=True)


_UN = {
    "negative": _sym1(op.neg, _np.negative), "positive": _sym1(lambda x: x, _np.positive),
    "absolute": _sym1(abs, _np.absolute), "fabs": _sym1(abs, _np.fabs),
    "invert": _inv, "logical_not": _inv,
    "rint": _sym1(lambda x: x.rint(), _np.rint),
    "floor": _sym1(lambda x: x.floor(), _np.floor), "ceil": _sym1(lambda x: x.ceil(), _np.ceil),
    "isfinite": _sym1(lambda x: _np.True_, _np.isfinite),
    "isnan": _sym1(lambda x: _np.False_, _np.isnan),
    "isinf": _sym1(lambda x: _np.False_, _np.isinf),
    "sqrt": ufs.s_sqrt, "log": ufs.s_log, "exp": ufs.s_exp,
    "square": _sym1(lambda x: x ** 2, _np.square),
    "sign": _sym1(_sign, _np.sign),
    "conjugate": _sym1(lambda x: x, _np.conjugate),
    "spacing": _sym1(lambda x: (_ for _ in ()).throw(PathAbort("spacing of symbolic")), _np.spacing),
}


def sym_ufunc(ufunc, method, inputs, kw):
    name = ufunc.__name__
    ins = [_raw(i) for i in inputs]
    out = kw.get("out")
    if method == "__call__" and not out:
        extra = {k: v for k, v in kw.items() if k not in ("out", "dtype", "casting", "where") or (k == "where" and v is not True)}
        if extra:
            raise PathAbort(f"ufunc {name} kwargs {list(extra)}")
        if name in _BIN and len(ins) == 2:
            res = _np.frompyfunc(_BIN[name], 2, 1)(*[_objify(i) for i in ins])
            return _post(res) if isinstance(res, _np.ndarray) else res
        if name in _UN and len(ins) == 1:
            res = _np.frompyfunc(_UN[name], 1, 1)(_objify(ins[0]))
            return _post(res) if isinstance(res, _np.ndarray) else res
        if name == "matmul":
            return _matmul(ins[0], ins[1])
    if method == "reduce" and name in _REDUCERS:
        return _reduce(name, ins[0], kw.get("axis", 0))
    if method == "__call__" and out and name in _BIN and len(ins) == 2:
        # in-place operators (a += b)
        res = _np.frompyfunc(_BIN[name], 2, 1)(*[_objify(i) for i in ins])
        tgt = out[0]
        if tgt.dtype != object:
            if isinstance(res, _np.ndarray) and _has_sym_elems(_np.asarray(res, dtype=object)) or isinstance(res, (SV, SB)):
                raise PathAbort("in-place symbolic update of a concrete array")
        _raw(tgt)[...] = _raw(res)
        return tgt
    raise PathAbort(f"unsupported ufunc {name}.{method}")


def _objify(x):
    """make sure frompyfunc sees python objects (keeps SV/SB as elements)"""
    if isinstance(x, _np.ndarray):
        return x if x.dtype == object else x.astype(object)
    if isinstance(x, (SV, SB, SIdx)):
        a = _np.empty((), dtype=object)
        a[()] = x
        return a
    if isinstance(x, (list, tuple)):
        a = _np.empty(len(x), dtype=object)
        try:
            arr = _np.array(x, dtype=object)
            return arr
        except Exception:
            for i, v in enumerate(x):
                a[i] = v
            return a
    return x


_REDUCERS = ("logical_or", "logical_and", "bitwise_or", "bitwise_and", "add", "maximum", "minimum", "multiply")


def _norm_dtype(t):
    """the shadow globals replace the builtins float/int by symbolic-aware functions; as a dtype they mean float/int"""
    n = getattr(t, "__name__", None)
    if n == "_sym_float":
        return float
    if n == "_sym_int":
        return int
    return t


class SymArray(_np.ndarray):
    __array_priority__ = 100

    def __array_finalize__(self, obj):
        pass

    def __array_ufunc__(self, ufunc, method, *inputs, **kw):
        return sym_ufunc(ufunc, method, inputs, kw)

    def __array_function__(self, func, types_, args, kwargs):
        name = func.__name__
        if name in _FUNCS:
            return _FUNCS[name](*args, **kwargs)
        args2 = _map_raw(args)
        kw2 = _map_raw(kwargs)
        res = func(*args2, **kw2)
        return _map_wrap(res)

    def __getitem__(self, key):
        if isinstance(key, SIdx):
            return _sel_rows(_raw(self), key)
        if isinstance(key, tuple) and any(isinstance(k, SIdx) for k in key):
            if isinstance(key[0], SIdx) and all(not isinstance(k, SIdx) for k in key[1:]):
                sub = _sel_rows(_raw(self), key[0])
                return sub[key[1:]] if isinstance(sub, _np.ndarray) else sub
            raise PathAbort("symbolic index in non-leading position")
        key = _fix_key(key)
        return _np.ndarray.__getitem__(self, key)

    def __setitem__(self, key, val):
        if isinstance(key, SIdx) or (isinstance(key, tuple) and any(isinstance(k, SIdx) for k in key)):
            return _set_rows(self, key, val)
        key = _fix_key(key)
        _np.ndarray.__setitem__(_raw(self), key, _raw(val))

    def view(self, *a, **kw):
        dt = a[0] if a else kw.get("dtype")
        try:
            is_void = dt is not None and not isinstance(dt, type(_np.ndarray)) and _np.dtype(dt).kind == "V"
        except TypeError:
            is_void = False
        if is_void and self.ndim == 2:
            # the "view each row as one opaque item" idiom for unique rows: in real arithmetic two rows have the same
            # bytes iff they are equal element-wise (signed zeros / NaN payloads are float artefacts, probed by the
            # signed-zero replay twin)
            return _np.ndarray.view(self, RowKeyArray)
        return _np.ndarray.view(self, *a, **kw)

    def __bool__(self):
        if self.size != 1:
            raise ValueError("The truth value of an array with more than one element is ambiguous. Use a.any() or a.all()")
        return bool(_raw(self).reshape(-1)[0])

    def __iter__(self):
        for i in range(len(self)):
            yield self[i]

    def __float__(self):
        if self.size != 1:
            raise TypeError("only length-1 arrays can be converted to Python scalars")
        return float(_raw(self).reshape(-1)[0])

    def __deepcopy__(self, memo):
        return self.copy()

    def any(self, axis=None, **kw):
        return _any(self, axis)

    def all(self, axis=None, **kw):
        return _all(self, axis)

    def copy(self, *a, **k):
        return _np.array(_raw(self), dtype=object, copy=True).view(SymArray)

    def item(self, *a):
        return _raw(self).item(*a)

    def astype(self, t, **kw):
        t = _norm_dtype(t)
        if t is bool or t == "bool" or t is _np.bool_:
            return _concretise_bools(self)
        if t in (float, "float", _np.float64, "float64"):
            out = self.copy()
            r = _raw(out)
            for idx in _np.ndindex(r.shape):
                if isinstance(r[idx], complex):
                    r[idx] = r[idx].real        # numpy discards the imaginary part (ComplexWarning)
            return out
        if t is object:
            return self.copy()
        if t in (int, "int", _np.int64, _np.intp):
            flat = _raw(self).ravel()
            if all((isinstance(v, SV) and v.is_int) or isinstance(v, (int, _np.integer)) for v in flat):
                return self.copy()
        raise PathAbort(f"astype({t}) on symbolic array")

    def min(self, axis=None, **kw):
        return _reduce("minimum", _raw(self), axis)

    def max(self, axis=None, **kw):
        return _reduce("maximum", _raw(self), axis)

    def sum(self, axis=None, **kw):
        return _reduce("add", _raw(self), axis)

    def prod(self, axis=None, **kw):
        return _reduce("multiply", _raw(self), axis)

    def mean(self, axis=None, **kw):
        return _mean(self, axis)

    def argmin(self, axis=None, **kw):
        return _argmin(self, axis)

    def argmax(self, axis=None, **kw):
        return _argmax(self, axis)

    def flatten(self, *a):
        return _raw(self).flatten(*a).view(SymArray)

    def squeeze(self, *a, **k):
        return _raw(self).squeeze(*a, **k).view(SymArray)

    def round(self, decimals=0, **kw):
        return _round(self, decimals)

    def __matmul__(self, o):
        return _matmul(_raw(self), _raw(o))

    def __rmatmul__(self, o):
        return _matmul(_raw(o), _raw(self))

    def dot(self, o):
        return _matmul(_raw(self), _raw(o))


def _sel(i, vals):
    """If-chain selecting vals[i] for symbolic int i"""
    if all(v is vals[0] for v in vals):
        return vals[0]
    if all(isinstance(v, _np.ndarray) for v in vals):
        shp = vals[0].shape
        if any(v.shape != shp for v in vals):
            raise PathAbort("symbolic index over arrays of different shapes")
        out = _np.empty(shp, dtype=object)
        raws = [_np.asarray(_raw(v), dtype=object) for v in vals]
        for idx in _np.ndindex(shp):
            out[idx] = _sel(i, [r[idx] for r in raws])
        return _post(out)
    if all(not isinstance(v, (SV, SB)) for v in vals) and len(set(map(repr, vals))) == 1:
        return vals[0]
    if any(v is None for v in vals):
        raise PathAbort("symbolic index over entries that are None")
    if any(isinstance(v, (SB, bool, _np.bool_)) for v in vals):
        e = bexpr(vals[-1])
        for k in range(len(vals) - 2, -1, -1):
            e = z3.If(i == k, bexpr(vals[k]), e)
        return mkbool(e)
    if any(_is_special(v) for v in vals):
        raise PathAbort("symbolic index into array with non-finite entries")
    e = lift(vals[-1])
    for k in range(len(vals) - 2, -1, -1):
        e = z3.If(i == k, lift(vals[k]), e)
    ii = all((isinstance(v, SV) and v.is_int) or isinstance(v, (int, _np.integer)) for v in vals)
    return SV(z3.simplify(e), is_int=ii)


def _sel_rows(a, key):
    a = _np.asarray(a)
    n = min(a.shape[0], key.n)   # the index is known to lie in [0, key.n)
    if a.ndim == 1:
        return _sel(key.e, [a[k] for k in range(n)])
    out = _np.empty(a.shape[1:], dtype=object)
    for idx in _np.ndindex(a.shape[1:]):
        out[idx] = _sel(key.e, [a[(k,) + idx] for k in range(n)])
    return _post(out)


def _set_rows(arr, key, val):
    """a[i] = val with symbolic i: every row becomes If(i==k, val, old)"""
    rest = ()
    if isinstance(key, tuple):
        key, rest = key[0], key[1:]
        if rest not in ((), (slice(None),)):
            raise PathAbort("symbolic row assignment with column index")
    a = _raw(arr)
    n = a.shape[0]
    val = _raw(val)
    for k in range(n):
        cond = key.e == k
        if a.ndim == 1:
            v = val.reshape(-1)[0] if isinstance(val, _np.ndarray) else val
            a[k] = _ite(cond, v, a[k])
        else:
            vb = _np.broadcast_to(_np.asarray(val, dtype=object), a.shape[1:])
            for idx in _np.ndindex(a.shape[1:]):
                a[(k,) + idx] = _ite(cond, vb[idx], a[(k,) + idx])


def _ite(cond, x, y):
    if isinstance(x, (SB, bool, _np.bool_)) and isinstance(y, (SB, bool, _np.bool_)):
        return mkbool(z3.If(cond, bexpr(x), bexpr(y)))
    if _is_special(x) or _is_special(y):
        if isinstance(x, float) and isinstance(y, float) and (x == y or (math.isnan(x) and math.isnan(y))):
            return x
        return x if Engine.cur.branch(cond) else y
    return SV(z3.simplify(z3.If(cond, lift(x), lift(y))))


def _fix_key(key):
    if isinstance(key, tuple):
        return tuple(_fix_key(k) for k in key)
    if isinstance(key, _np.ndarray) and key.dtype == object:
        flat = _raw(key).ravel()
        if len(flat) and all(isinstance(v, (bool, _np.bool_, SB)) for v in flat):
            return _concretise_bools(key)
        if all(isinstance(v, (int, _np.integer)) or (isinstance(v, SV) and v.is_int) for v in flat):
            out = _np.empty(key.shape, dtype=int)
            rk = _raw(key)
            for idx in _np.ndindex(key.shape):
                out[idx] = int(rk[idx])
            return out
    if isinstance(key, SV):
        return int(key)
    if isinstance(key, SB):
        return bool(key)
    return _raw(key) if isinstance(key, SymArray) else key


def _concretise_bools(arr):
    """object array of bool/SB -> concrete bool array (forks)"""
    a = _np.asarray(_raw(arr))
    if a.dtype == bool:
        return a
    out = _np.empty(a.shape, dtype=bool)
    for idx in _np.ndindex(a.shape):
        out[idx] = bool(a[idx])
    return out


def _map_raw(x):
    if isinstance(x, SymArray):
        return _raw(x)
    if isinstance(x, (list, tuple)):
        return type(x)(_map_raw(v) for v in x)
    if isinstance(x, dict):
        return {k: _map_raw(v) for k, v in x.items()}
    return x


def _map_wrap(x):
    if isinstance(x, _np.ndarray):
        return _post(x) if x.dtype == object else x
    if isinstance(x, tuple):
        return tuple(_map_wrap(v) for v in x)
    if isinstance(x, list):
        return [_map_wrap(v) for v in x]
    return x


def _orl(vals):
    es = []
    for v in vals:
        if isinstance(v, SB):
            es.append(v.e)
        elif isinstance(v, SV):
            es.append(v.e != 0)
        elif bool(v):
            return _np.True_
    return mkbool(z3.Or(*es)) if es else _np.False_


def _andl(vals):
    es = []
    for v in vals:
        if isinstance(v, SB):
            es.append(v.e)
        elif isinstance(v, SV):
            es.append(v.e != 0)
        elif not bool(v):
            return _np.False_
    return mkbool(z3.And(*es)) if es else _np.True_


def _reduce_axis(a, axis, f, empty=None):
    a = _np.asarray(_raw(a))
    if isinstance(axis, tuple):
        if len(axis) == 1:
            axis = axis[0]
        else:
            raise PathAbort("reduce over several axes")
    if axis is None:
        vals = list(a.ravel())
        if not vals and empty is not None:
            return empty()
        return f(vals)
    a2 = _np.moveaxis(a, axis, -1)
    out = _np.empty(a2.shape[:-1], dtype=object)
    for idx in _np.ndindex(out.shape):
        vals = list(a2[idx])
        out[idx] = f(vals) if vals or empty is None else empty()
    return _post(out)


def _any(a, axis=None, out=None, keepdims=False, **kw):
    return _reduce_axis(a, axis, _orl)


def _all(a, axis=None, out=None, keepdims=False, **kw):
    return _reduce_axis(a, axis, _andl)


def _raise_empty():
    raise ValueError("zero-size array to reduction operation which has no identity")


def _reduce(name, a, axis=None):
    f = {"logical_or": _orl, "logical_and": _andl, "bitwise_or": _orl, "bitwise_and": _andl,
         "add": lambda v: functools.reduce(_BIN["add"], v) if v else 0.0,
         "multiply": lambda v: functools.reduce(_BIN["multiply"], v) if v else 1.0,
         "maximum": lambda v: functools.reduce(s_max, v) if v else _raise_empty(),
         "minimum": lambda v: functools.reduce(s_min, v) if v else _raise_empty()}[name]
    return _reduce_axis(a, axis, f)


def _mean(a, axis=None, **kw):
    a = _np.asarray(_raw(a))
    s = _reduce("add", a, axis)
    n = a.size if axis is None else a.shape[axis]
    return s / n


def _var(a, axis=None, ddof=0, **kw):
    a = _np.asarray(_raw(a))
    if axis is not None:
        raise PathAbort("var with axis")
    vals = list(a.ravel())
    n = len(vals)
    m = functools.reduce(_BIN["add"], vals) / n
    return functools.reduce(_BIN["add"], [(v - m) * (v - m) for v in vals]) / (n - ddof)


def _std(a, axis=None, ddof=0, **kw):
    return ufs.s_sqrt(_var(a, axis, ddof))


def _row_lt(r1, r2):
    """lexicographic r1 < r2 (forks)"""
    for a, b in zip(r1, r2):
        if a < b:
            return True
        if a > b:
            return False
    return False


def _row_eq(r1, r2):
    for a, b in zip(r1, r2):
        if not (a == b):
            return False
    return True


class RowKeyArray(SymArray):
    """rows of a 2-D symbolic array standing for opaque per-row items (see SymArray.view)"""

    def ravel(self, *a, **kw):
        return self

    def reshape(self, *a, **kw):
        return self


def _unique(ar, return_index=False, return_inverse=False, return_counts=False, axis=None, **kw):
    if isinstance(ar, RowKeyArray):
        res = _unique(_np.ndarray.view(ar, SymArray), return_index=return_index, return_inverse=return_inverse,
                      return_counts=return_counts, axis=0)
        return res
    a = _np.asarray(_raw(ar))
    if return_inverse or return_counts:
        raise PathAbort("unique variant")
    if axis is None:
        a = a.reshape(-1, 1)
        flat = True
    elif axis == 0:
        flat = False
        if a.ndim == 1:
            a = a.reshape(-1, 1)
            flat = True
    else:
        raise PathAbort("unique axis")
    n = a.shape[0]

    def cmp(i, j):
        if _row_lt(a[i], a[j]):
            return -1
        if _row_lt(a[j], a[i]):
            return 1
        return i - j  # stable: first occurrence first

    order = sorted(range(n), key=functools.cmp_to_key(cmp))
    keep = []
    for k, i in enumerate(order):
        if k == 0 or not _row_eq(a[order[k - 1]], a[i]):
            keep.append(i)
    out = _post(a[keep]) if keep else a[:0]
    if flat:
        out = out.reshape(-1)
    if return_index:
        return out, _np.array(keep, dtype=int)
    return out


def _round(a, decimals=0, out=None, **kw):
    if decimals != 0:
        raise PathAbort("round decimals")
    if isinstance(a, (SV,)):
        return a.rint()
    return _post(_np.frompyfunc(_UN["rint"], 1, 1)(_objify(_raw(a))))


def _cmp_scalar(x, y):
    if x < y:
        return -1
    if y < x:
        return 1
    return 0


def _sort(a, axis=-1, **kw):
    a = _np.asarray(_raw(a))
    if axis not in (-1, a.ndim - 1):
        raise PathAbort("sort axis")
    out = _np.empty(a.shape, dtype=object)
    for idx in _np.ndindex(a.shape[:-1]):
        srt = sorted(a[idx], key=functools.cmp_to_key(_cmp_scalar))
        for j, v in enumerate(srt):
            out[idx + (j,)] = v
    return _post(out)


def _argsort(a, axis=-1, **kw):
    a = _np.asarray(_raw(a))
    if a.ndim != 1:
        raise PathAbort("argsort nd")

    def cmp(i, j):
        c = _cmp_scalar(a[i], a[j])
        return c if c else i - j

    order = sorted(range(len(a)), key=functools.cmp_to_key(cmp))
    out = _np.empty(len(order), dtype=object)      # an object array of python ints: a symbolic mask may index it later
    for i, v in enumerate(order):
        out[i] = int(v)
    return out.view(SymArray)


def _arg_extreme(a, axis, less):
    a = _np.asarray(_raw(a))
    if axis is not None and a.ndim > 1:
        raise PathAbort("argmin/argmax with axis")
    a = a.ravel()
    n = len(a)
    if n == 0:
        raise ValueError("attempt to get argmin of an empty sequence")
    if any(_is_special(v) for v in a):
        # fall back to forking comparison semantics with concrete specials
        best = 0
        for i in range(1, n):
            vi, vb = a[i], a[best]
            if _is_special(vb) and math.isnan(vb):
                break
            if _is_special(vi) and math.isnan(vi):
                best = i
                break
            if (vi < vb) if less else (vi > vb):
                best = i
        return _np.intp(best)
    if n > 1 and any(isinstance(v, SV) for v in a):
        eng = Engine.cur
        i = eng.z3_int("argext")
        L = [lift(v) for v in a]
        cs = [i >= 0, i < n]
        for j in range(n):
            if less:
                cs.append(z3.Implies(i == j, z3.And(*[L[j] <= L[k] for k in range(j + 1, n)], *[L[k] > L[j] for k in range(j)])))
            else:
                cs.append(z3.Implies(i == j, z3.And(*[L[j] >= L[k] for k in range(j + 1, n)], *[L[k] < L[j] for k in range(j)])))
        eng.assume(z3.And(*cs))
        return SIdx(i, n)
    best = 0
    for i in range(1, n):
        if (a[i] < a[best]) if less else (a[i] > a[best]):
            best = i
    return _np.intp(best)


def _argmin(a, axis=None, **kw):
    return _arg_extreme(a, axis, True)


def _argmax(a, axis=None, **kw):
    return _arg_extreme(a, axis, False)


def _delete(arr, obj, axis=None):
    if isinstance(obj, SIdx):
        a = _np.asarray(_raw(arr))
        if axis not in (0, None) or (axis is None and a.ndim != 1):
            raise PathAbort("delete with symbolic index on axis != 0")
        n = a.shape[0]
        out = _np.empty((n - 1,) + a.shape[1:], dtype=object)
        for j in range(n - 1):
            for idx in _np.ndindex(a.shape[1:]):
                lo = a[(j,) + idx]
                hi = a[(j + 1,) + idx]
                out[(j,) + idx] = _ite(obj.e > j, lo, hi)
        return _post(out)
    return _map_wrap(_np.delete(_raw(arr), _fix_key(obj), axis=axis))


def _isreal(a):
    return _np.ones(_np.shape(_raw(a)), dtype=bool)


def _argwhere(a):
    return _np.argwhere(_concretise_bools(a))


def _flatnonzero(a):
    # indices as an (all-concrete) SymArray so that a later symbolic mask can index them
    idx = _np.flatnonzero(_concretise_bools(_post(_np.frompyfunc(lambda v: (v != 0) if isinstance(v, SV) else v, 1, 1)(_objify(_raw(a))))))
    return _np.asarray(idx, dtype=object).view(SymArray)


def _nonzero(a):
    return _np.nonzero(_concretise_bools(_post(_np.frompyfunc(lambda v: (v != 0) if isinstance(v, SV) else v, 1, 1)(_objify(_raw(a))))))


def _where(cond, x=None, y=None):
    if x is None and y is None:
        return _nonzero(cond)
    c = _np.asarray(_raw(cond))
    xb, yb, cb = _np.broadcast_arrays(_np.asarray(_raw(x), dtype=object), _np.asarray(_raw(y), dtype=object), c)
    out = _np.empty(cb.shape, dtype=object)
    for idx in _np.ndindex(cb.shape):
        cv = cb[idx]
        if isinstance(cv, SB):
            out[idx] = _ite(cv.e, xb[idx], yb[idx])
        else:
            out[idx] = xb[idx] if cv else yb[idx]
    return _post(out)


def _matmul(a, b):
    a = _np.asarray(_raw(a), dtype=object)
    b = _np.asarray(_raw(b), dtype=object)
    a2 = a.reshape(1, -1) if a.ndim == 1 else a
    b2 = b.reshape(-1, 1) if b.ndim == 1 else b
    if a2.ndim != 2 or b2.ndim != 2:
        raise PathAbort("matmul nd")
    out = _np.empty((a2.shape[0], b2.shape[1]), dtype=object)
    mul, add = _BIN["multiply"], _BIN["add"]
    for i in range(a2.shape[0]):
        for j in range(b2.shape[1]):
            s = 0.0
            for k in range(a2.shape[1]):
                x, y = a2[i, k], b2[k, j]
                if (not isinstance(x, (SV, SB)) and x == 0) or (not isinstance(y, (SV, SB)) and y == 0):
                    continue
                s = add(s, mul(x, y))
            out[i, j] = s
    if a.ndim == 1 and b.ndim == 1:
        return out[0, 0]
    if a.ndim == 1:
        out = out[0]
    elif b.ndim == 1:
        out = out[:, 0]
    return _post(out)


def _percentile(a, q, axis=None, **kw):
    """linear-interpolation percentile (numpy default)"""
    if axis is not None:
        raise PathAbort("percentile axis")
    vals = list(_sort(_np.asarray(_raw(a)).ravel()))
    n = len(vals)
    pos = (n - 1) * (q / 100.0)
    lo = int(math.floor(pos))
    hi = min(lo + 1, n - 1)
    fr = pos - lo
    if fr == 0:
        return vals[lo]
    return vals[lo] + (vals[hi] - vals[lo]) * fr


def _cumsum(a, axis=None, **kw):
    a = _np.asarray(_raw(a))
    if a.ndim != 1:
        raise PathAbort("cumsum nd")
    out = _np.empty(a.shape, dtype=object)
    s = 0.0
    for i, v in enumerate(a):
        s = _BIN["add"](s, v)
        out[i] = s
    return _post(out)


def _isclose(a, b, rtol=1e-05, atol=1e-08, **kw):
    a = a if isinstance(a, (SV, SymArray)) else _np.asarray(a)
    b = b if isinstance(b, (SV, SymArray)) else _np.asarray(b)
    d = abs(a - b)
    return d <= atol + rtol * abs(b)


def _isscalar(x):
    return isinstance(x, (SV, SB)) or _np.isscalar(x)


def _size(x, axis=None):
    if isinstance(x, (SV, SB, SIdx)):
        return 1
    return _np.size(_raw(x), axis)


def _ndim(x):
    if isinstance(x, (SV, SB, SIdx)):
        return 0
    return _np.ndim(_raw(x))


def _average(a, axis=None, weights=None):
    if weights is None:
        return _mean(a, axis=axis)
    if axis is not None:
        raise PathAbort("np.average with weights along an axis")
    av = _np.asarray(_raw(a), dtype=object).ravel()
    wv = _np.asarray(_raw(weights), dtype=object).ravel()
    if av.shape != wv.shape:
        raise TypeError("Axis must be specified when shapes of a and weights differ.")
    num, den = 0, 0
    for x, w in zip(av, wv):
        num = num + x * w
        den = den + w
    return num / den


_FUNCS = {
    "delete": _delete, "argwhere": _argwhere, "unique": _unique, "round": _round, "around": _round,
    "any": _any, "all": _all, "sort": _sort, "argsort": _argsort, "argmin": _argmin, "argmax": _argmax,
    "isreal": _isreal, "nonzero": _nonzero, "flatnonzero": _flatnonzero, "where": _where, "percentile": _percentile, "cumsum": _cumsum,
    "amax": lambda a, axis=None, **kw: _reduce("maximum", _raw(a), axis),
    "amin": lambda a, axis=None, **kw: _reduce("minimum", _raw(a), axis),
    "max": lambda a, axis=None, **kw: _reduce("maximum", _raw(a), axis),
    "min": lambda a, axis=None, **kw: _reduce("minimum", _raw(a), axis),
    "sum": lambda a, axis=None, **kw: _reduce("add", _raw(a), axis),
    "prod": lambda a, axis=None, **kw: _reduce("multiply", _raw(a), axis),
    "mean": _mean, "std": _std, "var": _var, "dot": _matmul, "matmul": _matmul, "average": lambda a, axis=None, weights=None, **kw: _average(a, axis, weights),
    "copy": lambda a, **kw: _np.array(_raw(a), dtype=object, copy=True).view(SymArray),
    "isclose": _isclose,
    "allclose": lambda a, b, rtol=1e-05, atol=1e-08, **kw: _all(_isclose(a, b, rtol, atol)),
    "median": lambda a, axis=None, **kw: _percentile(a, 50, axis),
    "size": _size, "ndim": _ndim,
}


# ----------------------------------------------------------------------------
# proxy module standing in for `np` inside rebound functions
# ----------------------------------------------------------------------------
def _contains_sym(x, depth=0):
    if isinstance(x, (SV, SB, SIdx, SymArray)):
        return True
    if isinstance(x, _np.ndarray):
        return x.dtype == object and x.size < 4096 and _has_sym_elems(x)
    if depth < 3 and isinstance(x, (list, tuple)):
        return any(_contains_sym(v, depth + 1) for v in x)
    return False


class NpProxy(types.ModuleType):
    """Everything falls through to NumPy unless symbolic values are involved or an
    array is being created (floating arrays are created with dtype=object so that
    symbolic elements can be stored into them later)."""

    def __init__(self):
        super().__init__("symnp_proxy")
        self.__dict__["_cache"] = {}

    def __getattr__(self, name):
        if name == "random":
            return RandomProxy()
        c = self.__dict__["_cache"]
        if name in c:
            return c[name]
        real = getattr(_np, name)
        if isinstance(real, _np.ufunc):
            w = self._wrap_ufunc(real)
        elif isinstance(real, (types.FunctionType, types.BuiltinFunctionType)) or (callable(real) and not isinstance(real, type) and not isinstance(real, types.ModuleType) and type(real).__name__ in ("_ArrayFunctionDispatcher", "builtin_function_or_method", "function")):
            w = self._wrap_func(name, real)
        else:
            w = real
        c[name] = w
        return w

    @staticmethod
    def _wrap_ufunc(real):
        name = real.__name__

        class UF:
            __name__ = name

            def __call__(self_, *args, **kw):
                if any(_contains_sym(a) for a in args):
                    return sym_ufunc(real, "__call__", args, kw)
                with _np.errstate(all="ignore"):
                    return real(*args, **kw)

            def reduce(self_, a, axis=0, **kw):
                if _contains_sym(a):
                    return _reduce(name, _objify(_raw(a)), axis)
                return real.reduce(a, axis=axis, **kw)

            def __getattr__(self_, k):
                return getattr(real, k)
        return UF()

    @staticmethod
    def _wrap_func(name, real):
        def f(*args, **kw):
            if name in _FUNCS and (any(_contains_sym(a) for a in args) or any(_contains_sym(v) for v in kw.values())):
                return _FUNCS[name](*args, **kw)
            res = real(*_map_raw(args), **_map_raw(kw))
            return _map_wrap(res)
        f.__name__ = name
        return f

    # -- creation: float arrays are object arrays ------------------------------
    @staticmethod
    def _is_float_dtype(dtype, fill=None):
        if dtype is None:
            return not isinstance(fill, (bool, _np.bool_, int, _np.integer, str)) or isinstance(fill, (SV, SB))
        return dtype in (float, "float", _np.float64, "float64")

    def full(self, shape, fill_value, dtype=None, **kw):
        if isinstance(fill_value, (SV, SB)) or (self._is_float_dtype(dtype, fill_value) and fill_value is not None
                                                and not isinstance(fill_value, (_np.ndarray, list, tuple))):
            return obj_array(shape, fill_value if isinstance(fill_value, (SV, SB)) else float(fill_value))
        if fill_value is None:
            return _np.full(shape, None, dtype=object).view(SymArray)
        if isinstance(fill_value, (_np.ndarray, list, tuple)) and _contains_sym(fill_value):
            out = _np.empty(shape, dtype=object)
            out[...] = _raw(_objify(fill_value))
            return out.view(SymArray)
        return _np.full(shape, fill_value, dtype=dtype, **kw)

    def zeros(self, shape, dtype=None, **kw):
        if self._is_float_dtype(dtype, 0.0):
            return obj_array(shape, 0.0)
        return _np.zeros(shape, dtype=dtype, **kw)

    def ones(self, shape, dtype=None, **kw):
        if self._is_float_dtype(dtype, 1.0):
            return obj_array(shape, 1.0)
        return _np.ones(shape, dtype=dtype, **kw)

    def empty(self, shape, dtype=None, **kw):
        if self._is_float_dtype(dtype, 0.0):
            return obj_array(shape, math.nan)
        return _np.empty(shape, dtype=dtype, **kw)

    def eye(self, n, *a, **kw):
        return _np.eye(n, *a, **kw).astype(object).view(SymArray)

    def zeros_like(self, a, **kw):
        return self.zeros(_np.shape(_raw(a)))

    def ones_like(self, a, **kw):
        return self.ones(_np.shape(_raw(a)))

    def array(self, obj, dtype=None, **kw):
        dtype = _norm_dtype(dtype)
        if isinstance(obj, SymArray) and dtype in (float, _np.float64) and not _contains_sym(obj):
            # a SymArray whose elements are all concrete (e.g. +-inf bounds): stays a SymArray so that later symbolic writes work
            return obj.copy()
        if _contains_sym(obj):
            return _post(_np.array(_map_raw(obj), dtype=object, **{k: v for k, v in kw.items() if k != "copy"}))
        return _np.array(obj, dtype=dtype, **kw)

    def asarray(self, obj, dtype=None, **kw):
        dtype = _norm_dtype(dtype)
        if isinstance(obj, SymArray):
            return obj
        if _contains_sym(obj):
            return _post(_np.array(_map_raw(obj), dtype=object))
        return _np.asarray(obj, dtype=dtype, **kw)

    def isscalar(self, x):
        return _isscalar(x)

    def size(self, x, axis=None):
        return _size(x, axis)

    def ndim(self, x):
        return _ndim(x)

    def shape(self, x):
        if isinstance(x, (SV, SB, SIdx)):
            return ()
        return _np.shape(_raw(x))

    def isreal(self, x):
        if isinstance(x, (SV, SB)):
            return _np.True_
        if _contains_sym(x):
            return _isreal(x)
        return _np.isreal(x)

    def iscomplexobj(self, x):
        if _contains_sym(x):
            return False
        return _np.iscomplexobj(x)

    def atleast_1d(self, *arys):
        res = [arr1([a]) if isinstance(a, (SV, SB)) else _np.atleast_1d(a) for a in arys]
        return res[0] if len(res) == 1 else res

    def atleast_2d(self, *arys):
        res = []
        for a in arys:
            if isinstance(a, (SV, SB)):
                res.append(arr1([a]).reshape(1, 1))
            elif isinstance(a, (list, tuple)) and _contains_sym(a):
                res.append(_np.atleast_2d(self.array(a)))
            else:
                res.append(_np.atleast_2d(a))
        return res[0] if len(res) == 1 else res

    def append(self, arr, values, axis=None):
        if _contains_sym(arr) or _contains_sym(values) or (isinstance(arr, _np.ndarray) and arr.dtype == object):
            return _post(_np.append(_np.asarray(_raw(arr), dtype=object), _np.asarray(_raw(_objify(values)), dtype=object), axis=axis))
        return _np.append(arr, values, axis=axis)


class RandomProxy:
    """np.random inside rebound code: delegates to the harness' RNG stub (Engine.cur.rng);
    any randomness API the stub does not provide is reported (C07 discipline)."""

    def __getattr__(self, name):
        rng = getattr(Engine.cur, "rng", None)
        if rng is None or not hasattr(rng, name):
            raise PathAbort(f"unstubbed randomness API np.random.{name}")
        return getattr(rng, name)


class NpConcreteProxy(types.ModuleType):
    """`np` for concrete replays: plain NumPy for everything except np.random
    (scripted by the harness' RNG stub so that the model's draws are replayed)."""

    def __init__(self):
        super().__init__("numpy_concrete_proxy")

    def __getattr__(self, name):
        if name == "random":
            if getattr(Engine.cur, "rng", None) is not None:
                return RandomProxy()
            return _np.random
        return getattr(_np, name)


npx = NpProxy()
npc = NpConcreteProxy()


def sym_array(eng, name, shape, integer=False):
    a = _np.empty(shape, dtype=object)
    for idx in _np.ndindex(*shape):
        nm = f"{name}_{'_'.join(map(str, idx))}" if len(idx) else name
        a[idx] = eng.integer(nm) if integer else eng.real(nm)
    if eng.concrete:
        return a.astype(int if integer else float)
    return a.view(SymArray)


def to_obj(a):
    """harness helper: concrete float array -> object SymArray so symbolic values may be stored"""
    return _np.asarray(a, dtype=object).view(SymArray)
