"""Obligation DSL usable in symbolic and concrete mode.

Values are SV / SIdx / python / numpy numbers; conditions are z3 BoolRef, SB or
python bools.  With only concrete operands everything evaluates to python bools
(equalities with a small relative tolerance, because the concrete replay runs in
floating point while the symbolic semantics is exact real arithmetic).
"""
import math

import numpy as _np
import z3

from .values import SV, SB, SIdx, lift, _is_special, arith_pair, int_sorted

EQ_TOL = 1e-9


def _sc(x):
    """scalarise"""
    if isinstance(x, _np.ndarray):
        if x.size != 1:
            raise ValueError(f"ob: expected scalar, got shape {x.shape}")
        x = x.reshape(-1)[0]
    if isinstance(x, _np.generic):
        x = x.item()
    return x


def _symb(x):
    return isinstance(x, (SV, SB, SIdx, z3.ExprRef))


def E(x):
    x = _sc(x)
    if isinstance(x, z3.ExprRef):
        return z3.ToReal(x) if z3.is_int(x) else x
    return lift(x)


def C(c):
    """condition -> z3 BoolRef or python bool"""
    c = _sc(c)
    if isinstance(c, SB):
        return c.e
    if isinstance(c, z3.BoolRef):
        return c
    if isinstance(c, (bool, _np.bool_)):
        return bool(c)
    if isinstance(c, SV):
        return c.e != 0
    raise TypeError(f"ob.C: {type(c)}")


def _cmp(a, b, sym, conc):
    a, b = _sc(a), _sc(b)
    if _symb(a) or _symb(b):
        if _is_special(a) or _is_special(b):
            return conc(float(a) if not _symb(a) else _mid(a, b), float(b) if not _symb(b) else _mid(b, a))
        if not isinstance(a, z3.ExprRef) and not isinstance(b, z3.ExprRef):
            ta, tb = arith_pair(a, b)
        else:
            ta, tb = E(a), E(b)
        return z3.simplify(sym(ta, tb))
    return conc(a, b)


def _mid(s, other):
    # a finite symbolic value compared with a concrete special: any finite stand-in works
    return 0.0


def eq(a, b, tol=EQ_TOL):
    def conc(x, y):
        if x is None or y is None:
            return x is y
        if isinstance(x, float) and isinstance(y, float) and (math.isinf(x) or math.isinf(y)):
            return x == y
        if isinstance(x, float) and math.isnan(x) or isinstance(y, float) and math.isnan(y):
            return False
        return abs(x - y) <= tol * max(1.0, abs(x), abs(y))
    return _cmp(a, b, lambda x, y: x == y, conc)


def ne(a, b, tol=EQ_TOL):
    return Not(eq(a, b, tol))


def le(a, b):
    return _cmp(a, b, lambda x, y: x <= y, lambda x, y: x <= y)


def lt(a, b):
    return _cmp(a, b, lambda x, y: x < y, lambda x, y: x < y)


def ge(a, b):
    return le(b, a)


def gt(a, b):
    return lt(b, a)


def le_tol(a, b, tol=EQ_TOL):
    """a <= b, tolerant in concrete mode (for bounds that hold with equality in exact arithmetic)"""
    return _cmp(a, b, lambda x, y: x <= y, lambda x, y: x <= y + tol * max(1.0, abs(x), abs(y)) if math.isfinite(x) and math.isfinite(y) else x <= y)


def And(*cs):
    out = []
    for c in cs:
        c = C(c)
        if isinstance(c, bool):
            if not c:
                return False
        else:
            out.append(c)
    if not out:
        return True
    return z3.And(*out) if len(out) > 1 else out[0]


def Or(*cs):
    out = []
    for c in cs:
        c = C(c)
        if isinstance(c, bool):
            if c:
                return True
        else:
            out.append(c)
    if not out:
        return False
    return z3.Or(*out) if len(out) > 1 else out[0]


def Not(c):
    c = C(c)
    if isinstance(c, bool):
        return not c
    return z3.Not(c)


def Implies(a, b):
    return Or(Not(a), b)


def Iff(a, b):
    a, b = C(a), C(b)
    if isinstance(a, bool) and isinstance(b, bool):
        return a == b
    if isinstance(a, bool):
        return b if a else Not(b)
    if isinstance(b, bool):
        return a if b else Not(a)
    return a == b


def Ite(c, x, y):
    """value-level if-then-else"""
    c = C(c)
    if isinstance(c, bool):
        return x if c else y
    x, y = _sc(x), _sc(y)
    if not isinstance(x, z3.ExprRef) and not isinstance(y, z3.ExprRef):
        tx, ty = arith_pair(x, y)
        return SV(z3.If(c, tx, ty), is_int=tx.is_int())
    return SV(z3.If(c, E(x), E(y)))


def vmax(*xs):
    r = xs[0]
    for x in xs[1:]:
        r = Ite(ge(r, x), r, x)
    return r


def vmin(*xs):
    r = xs[0]
    for x in xs[1:]:
        r = Ite(le(r, x), r, x)
    return r


def vsum(xs):
    r = 0
    for x in xs:
        x = _sc(x)
        if (_symb(r) or _symb(x)) and not isinstance(r, z3.ExprRef) and not isinstance(x, z3.ExprRef):
            tr, tx = arith_pair(r, x)
            r = SV(tr + tx, is_int=tr.is_int())
        elif _symb(r) or _symb(x):
            r = SV(E(r) + E(x))
        else:
            r = r + x
    return r


def count(cs):
    """number of true conditions (value)"""
    return vsum([Ite(c, 1, 0) for c in cs])


def rows_eq(r1, r2, tol=EQ_TOL):
    r1 = _np.asarray(r1).reshape(-1)
    r2 = _np.asarray(r2).reshape(-1)
    if len(r1) != len(r2):
        return False
    return And(*[eq(a, b, tol) for a, b in zip(r1, r2)])


def truth(c):
    """concrete truth value of a condition (concrete mode / constant conditions)"""
    c = C(c)
    if isinstance(c, bool):
        return c
    s = z3.simplify(c)
    if z3.is_true(s):
        return True
    if z3.is_false(s):
        return False
    return None


def approx(a, b, rel=1e-9):
    """|a - b| <= rel * (1 + |a| + |b|) in both modes (for identities that hold only up to the rounding of
    floating-point constants such as sqrt(2) used by the code)"""
    a, b = _sc(a), _sc(b)
    if _symb(a) or _symb(b):
        ea, eb = E(a), E(b)
        absd = z3.If(ea - eb >= 0, ea - eb, eb - ea)
        aa = z3.If(ea >= 0, ea, -ea)
        ab = z3.If(eb >= 0, eb, -eb)
        from .engine import real_val
        return absd <= real_val(rel) * (1 + aa + ab)
    return abs(a - b) <= rel * (1 + abs(a) + abs(b))
