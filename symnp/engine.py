"""Path-forking symbolic execution engine (re-execution with a decision prefix).

One Engine object = one path.  Two modes:

* symbolic  : inputs are z3 variables, every Python-level decision on a symbolic
              bool is decided by z3 under the current path condition; when both
              polarities are feasible the path forks (other polarity queued).
* concrete  : (``model`` given) the same harness code is run with plain Python
              floats/ints/bools read from a solver model, the real functions run
              under plain NumPy.  Used for replaying counterexamples and for the
              path-model cross validation of the encoding.
"""
import time
from fractions import Fraction

import z3


class PathAbort(BaseException):
    """The path cannot be continued (unknown from the solver, an operation the
    proxy does not model, ...).  Never counts as success."""


class ReplayMismatch(BaseException):
    """Concrete replay left the region described by the model (an assumption is
    false under the model's float values)."""


class Infeasible(BaseException):
    """An assumption made the current path infeasible."""


def frac(x):
    return Fraction(x)


def real_val(x):
    """exact z3 RealVal of a python number (floats via their exact binary value)"""
    if isinstance(x, bool):
        return z3.RealVal(int(x))
    if isinstance(x, int):
        return z3.RealVal(x)
    if isinstance(x, Fraction):
        fr = x
    else:
        fr = Fraction(float(x))
    if fr.denominator == 1:
        return z3.RealVal(fr.numerator)
    return z3.RealVal(fr.numerator) / z3.RealVal(fr.denominator)


class Engine:
    cur = None

    def __init__(self, prefix=(), timeout_ms=20000, model=None):
        self.concrete = model is not None
        self.model = model or {}
        self.prefix = list(prefix)
        self.trace = []
        self.work = []
        self.n_queries = 0
        self.solver_s = 0.0
        self.unknowns = 0
        self.fresh = 0
        self.fresh_internal = 0
        self.vars = {}  # name -> z3 const (symbolic mode)
        self.uf_apps = {}
        self.events = []  # harness-level log (stub traffic), JSON-able
        self.missing = []  # concrete mode: names not present in the model
        self.forks = 0
        self.decisions = []  # z3 conditions of the branch decisions taken on this path (with their polarity)
        if not self.concrete:
            self.solver = z3.Solver()
            self.solver.set("timeout", timeout_ms)
            self.timeout_ms = timeout_ms
        else:
            self.solver = None

    # ------------------------------------------------------------------ solver
    def check(self, *extra):
        t = time.time()
        r = self.solver.check(*extra)
        if r == z3.unknown:
            # one retry with a 5x budget (machine load must not turn a decidable query into 'inconclusive')
            self.solver.set("timeout", int(getattr(self, "timeout_ms", 20000)) * 5)
            try:
                r = self.solver.check(*extra)
            finally:
                self.solver.set("timeout", int(getattr(self, "timeout_ms", 20000)))
        self.solver_s += time.time() - t
        self.n_queries += 1
        if r == z3.unknown:
            self.unknowns += 1
        return r

    def assume(self, c):
        """add a constraint to the path condition"""
        if isinstance(c, bool):
            if not c:
                if self.concrete:
                    raise ReplayMismatch("assumption false")
                raise Infeasible("assume(False)")
            return
        if hasattr(c, "e") and not isinstance(c, z3.ExprRef):
            c = c.e
        if self.concrete:
            raise TypeError("symbolic assumption in concrete mode")
        self.solver.add(c)

    def branch(self, cond):
        """Decide symbolic bool `cond` on this path."""
        cond = z3.simplify(cond)
        if z3.is_true(cond):
            return True
        if z3.is_false(cond):
            return False
        i = len(self.trace)
        if i < len(self.prefix):
            d = self.prefix[i]
            self.trace.append(d)
            self.solver.add(cond if d else z3.Not(cond))
            self.decisions.append(cond if d else z3.Not(cond))
            return d
        rt = self.check(cond)
        if rt == z3.unsat:
            self.solver.add(z3.Not(cond))
            self.decisions.append(z3.Not(cond))
            self.trace.append(False)
            return False
        rf = self.check(z3.Not(cond))
        if rf == z3.unsat:
            self.solver.add(cond)
            self.decisions.append(cond)
            self.trace.append(True)
            return True
        if rt == z3.unknown or rf == z3.unknown:
            raise PathAbort("solver unknown in branch")
        # both feasible: fork
        self.forks += 1
        self.work.append(self.trace + [False])
        self.trace.append(True)
        self.solver.add(cond)
        self.decisions.append(cond)
        return True

    # ------------------------------------------------------------- variables
    def _mv(self, name, default):
        if name in self.model:
            return self.model[name]
        self.missing.append(name)
        return default

    def real(self, name):
        from .values import SV
        if self.concrete:
            return float(self._mv(name, 0.0))
        v = self.vars.get(name)
        if v is None:
            v = z3.Real(name)
            self.vars[name] = v
        return SV(v)

    def integer(self, name):
        from .values import SV
        if self.concrete:
            return int(self._mv(name, 0))
        v = self.vars.get(name)
        if v is None:
            v = z3.Int(name)
            self.vars[name] = v
        return SV(v, is_int=True)

    def boolean(self, name):
        from .values import SB
        if self.concrete:
            return bool(self._mv(name, False))
        v = self.vars.get(name)
        if v is None:
            v = z3.Bool(name)
            self.vars[name] = v
        return SB(v)

    def fresh_name(self, base):
        self.fresh += 1
        return f"{base}!{self.fresh}"

    def fresh_real(self, base):
        return self.real(self.fresh_name(base))

    def fresh_int(self, base):
        return self.integer(self.fresh_name(base))

    def fresh_bool(self, base):
        return self.boolean(self.fresh_name(base))

    def choose(self, base):
        """a nondeterministic Python bool (forks in symbolic mode)"""
        return bool(self.fresh_bool(base))

    def choose_int(self, base, lo, hi):
        """nondeterministic python int in [lo, hi] (forks over all values)"""
        v = self.fresh_int(base)
        if self.concrete:
            return int(v)
        self.assume(z3.And(v.e >= lo, v.e <= hi))
        for k in range(lo, hi):
            if bool(v == k):
                return k
        return hi

    # low level z3 consts for internal encodings (argmin index, sqrt, ...)
    # (their own counter: the concrete replay never creates them, harness-level fresh names must not shift)
    def z3_real(self, base):
        self.fresh_internal += 1
        name = f"{base}!i{self.fresh_internal}"
        v = z3.Real(name)
        self.vars[name] = v
        return v

    def z3_int(self, base):
        self.fresh_internal += 1
        name = f"{base}!i{self.fresh_internal}"
        v = z3.Int(name)
        self.vars[name] = v
        return v

    def log(self, *ev):
        self.events.append(ev)

    # ----------------------------------------------------------------- models
    def extract_model(self, m):
        out = {}
        for name, v in self.vars.items():
            val = m.eval(v, model_completion=True)
            out[name] = _pyval(val)
        return out


def _pyval(val):
    if z3.is_true(val):
        return True
    if z3.is_false(val):
        return False
    if z3.is_int_value(val):
        return val.as_long()
    if z3.is_rational_value(val):
        return Fraction(val.numerator_as_long(), val.denominator_as_long())
    if z3.is_algebraic_value(val):
        a = val.approx(30)
        return Fraction(a.numerator_as_long(), a.denominator_as_long())
    try:
        return Fraction(str(val))
    except Exception:
        return 0


def model_to_json(model):
    out = {}
    for k, v in model.items():
        if isinstance(v, bool):
            out[k] = v
        elif isinstance(v, int):
            out[k] = v
        elif isinstance(v, Fraction):
            out[k] = float(v) if v.denominator != 1 else int(v) if abs(v) < 2**53 else float(v)
        else:
            out[k] = v
    return out
