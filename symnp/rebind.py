"""Transitive rebinding of pybads functions/classes onto shadow module globals.

The *bytecode executed is the bytecode of /repo's current source*: a rebound
function is types.FunctionType(f.__code__, shadow_globals_of_its_module, ...).
In the shadow globals `np` is the symbolic proxy (or the thin concrete proxy for
replays), every pybads function/class is replaced by its rebound twin, and the
harness' stubs are installed.
"""
import builtins
import sys
import types

import numpy as _np

from .arrays import npx, npc, RandomProxy, SymArray, _post, _raw, _objify
from .engine import Engine, PathAbort
from .values import SV, SB, SIdx
from . import ufs

PKG = "pybads"


def _sym_float(x=0.0):
    if isinstance(x, SV):
        return x
    if isinstance(x, SymArray):
        if x.size != 1:
            raise TypeError("only length-1 arrays can be converted to Python scalars")
        v = _raw(x).reshape(-1)[0]
        return v if isinstance(v, SV) else builtins.float(v)
    return builtins.float(x)


def _sym_int(x=0, *a):
    if isinstance(x, SV):
        if x.is_int:
            return x
        # int() truncates toward zero
        if x >= 0:
            return x.floor()
        return x.ceil()
    if isinstance(x, SIdx):
        return x
    return builtins.int(x, *a)


def _sym_abs(x):
    return builtins.abs(x)


def _sym_min(*a, **k):
    vals = a[0] if len(a) == 1 else a
    if any(isinstance(v, SV) for v in vals):
        from .values import s_min
        import functools
        return functools.reduce(s_min, vals)
    return builtins.min(*a, **k)


def _sym_max(*a, **k):
    vals = a[0] if len(a) == 1 else a
    if any(isinstance(v, SV) for v in vals):
        from .values import s_max
        import functools
        return functools.reduce(s_max, vals)
    return builtins.max(*a, **k)


def _sym_isinstance(obj, cls):
    """SV stands for python float / numpy float64"""
    cl = cls if isinstance(cls, tuple) else (cls,)
    if _sym_float in cl:
        cl = tuple(float if c is _sym_float else c for c in cl)
        cls = cl
    if isinstance(obj, SV):
        if any(c in (float, _np.floating, _np.float64, _np.number, _np.generic) for c in cl):
            return True
        if obj.is_int and any(c in (int, _np.integer) for c in cl):
            return True
    return builtins.isinstance(obj, cls)


def cdist_sym(A, B, *a, **k):
    """scipy.spatial.distance.cdist (euclidean) on symbolic rows: exact via the sqrt encoding"""
    A = _np.asarray(_raw(A))
    B = _np.asarray(_raw(B))
    if A.dtype != object and B.dtype != object:
        from scipy.spatial.distance import cdist
        return cdist(A, B, *a, **k)
    out = _np.empty((A.shape[0], B.shape[0]), dtype=object)
    for i in range(A.shape[0]):
        for j in range(B.shape[0]):
            s = 0.0
            for d in range(A.shape[1]):
                df = A[i, d] - B[j, d]
                s = s + df * df
            out[i, j] = ufs.s_sqrt(s)
    return _post(out)


def erfc_sym(x):
    if isinstance(x, SV):
        return ufs.s_erfc(x)
    if isinstance(x, _np.ndarray) and x.dtype == object:
        return _post(_np.frompyfunc(ufs.s_erfc, 1, 1)(_raw(x)))
    from scipy.special import erfc
    return erfc(x)


_MUT = (dict, list, set, bytearray)
PRISTINE = {}       # modname -> (names at import time, {name: deep copy of a mutable module-level container})
PRISTINE_CLS = {}   # class -> {attr: deep copy of a mutable class-level container}


def _snapshot_pristine():
    """Module- and class-level mutable state of every pybads module as it is right after import, i.e. in a fresh process.
    A Rebinder starts from a private copy of it, so one Rebinder = one process history (C07/C20: what an earlier
    instance or run leaves behind in module globals, class attributes or mutable defaults is visible to later code of
    the same Rebinder and to no other)."""
    import copy
    import importlib
    import pkgutil
    try:
        pkg = importlib.import_module(PKG)
    except Exception:
        return
    for m in pkgutil.walk_packages(pkg.__path__, PKG + "."):
        if ".testing" in m.name or m.name.endswith(("conftest", "setup")) or ".test_" in m.name:
            continue
        try:
            importlib.import_module(m.name)
        except Exception:
            pass
    for modname, mod in list(sys.modules.items()):
        if mod is None or not modname.startswith(PKG) or modname in PRISTINE:
            continue
        muts = {}
        for name, v in list(vars(mod).items()):
            if type(v) in _MUT and not name.startswith("__"):
                try:
                    muts[name] = copy.deepcopy(v)
                except Exception:
                    pass
            if isinstance(v, type) and (v.__module__ or "").startswith(PKG) and v not in PRISTINE_CLS:
                ca = {}
                for k, a in vars(v).items():
                    if type(a) in _MUT and not k.startswith("__"):
                        try:
                            ca[k] = copy.deepcopy(a)
                        except Exception:
                            pass
                PRISTINE_CLS[v] = ca
        PRISTINE[modname] = (set(vars(mod)), muts)


_snapshot_pristine()


class Rebinder:
    def __init__(self, concrete=False, stubs=None, shim_builtins=True):
        self.concrete = concrete
        self.stubs = stubs or {}
        self.shadow = {}
        self.fmemo = {}
        self.cmemo = {}
        self.shim_builtins = shim_builtins
        self.rebound_functions = []  # (qualname, file, firstlineno) evidence

    # ------------------------------------------------------------------ globals
    def globals_for(self, modname):
        g = self.shadow.get(modname)
        if g is not None:
            return g
        mod = sys.modules[modname]
        g = dict(mod.__dict__)
        self.shadow[modname] = g
        names0, muts0 = PRISTINE.get(modname, (None, {}))
        import copy
        for name, v in list(g.items()):
            if names0 is not None and name not in names0:
                del g[name]          # written into the module by an earlier call in this process (e.g. exec'd parameters)
                continue
            if name in muts0 and type(v) in _MUT:
                g[name] = copy.deepcopy(muts0[name])
                continue
            if v is _np:
                g[name] = npc if self.concrete else npx
            elif v is _np.random:
                g[name] = RandomProxy()
            elif isinstance(v, types.FunctionType) and (v.__module__ or "").startswith(PKG):
                g[name] = self.func(v)
            elif isinstance(v, type) and (v.__module__ or "").startswith(PKG):
                g[name] = self.cls(v)
        if not self.concrete:
            if self.shim_builtins:
                g["float"] = _sym_float
                g["min"] = _sym_min
                g["max"] = _sym_max
                g["isinstance"] = _sym_isinstance
            if "cdist" in g:
                g["cdist"] = cdist_sym
            if "erfc" in g:
                g["erfc"] = erfc_sym
        for key in ("*", modname):
            for name, v in self.stubs.get(key, {}).items():
                if key == "*" and name not in g:
                    continue
                g[name] = v
        return g

    # ---------------------------------------------------------------- functions
    def _cell(self, cell, owner=None, owner_cell=None):
        try:
            v = cell.cell_contents
        except ValueError:
            return cell
        if owner is not None and v is owner:
            return owner_cell
        if isinstance(v, types.FunctionType) and (v.__module__ or "").startswith(PKG):
            return types.CellType(self.func(v))
        if isinstance(v, type) and (v.__module__ or "").startswith(PKG):
            return types.CellType(self.cls(v))
        return cell

    def func(self, f, owner=None, owner_cell=None):
        if not isinstance(f, types.FunctionType) or not (f.__module__ or "").startswith(PKG):
            return f
        key = id(f)
        if key in self.fmemo:
            return self.fmemo[key]
        g = self.globals_for(f.__module__)
        closure = None
        if f.__closure__:
            closure = tuple(self._cell(c, owner, owner_cell) for c in f.__closure__)
        import copy
        dflt = f.__defaults__
        if dflt and any(type(d) in _MUT for d in dflt):
            dflt = tuple(copy.deepcopy(d) if type(d) in _MUT else d for d in dflt)   # mutable defaults: private to this Rebinder
        nf = types.FunctionType(f.__code__, g, f.__name__, dflt, closure)
        nf.__kwdefaults__ = f.__kwdefaults__
        nf.__qualname__ = f.__qualname__
        nf.__dict__.update({k: v for k, v in f.__dict__.items() if k != "__wrapped__"})
        if "__wrapped__" in f.__dict__:
            nf.__wrapped__ = self.func(f.__dict__["__wrapped__"])
        self.fmemo[key] = nf
        self.rebound_functions.append((f.__module__ + "." + f.__qualname__, f.__code__.co_filename, f.__code__.co_firstlineno))
        return nf

    def cls(self, c):
        if not isinstance(c, type) or not (c.__module__ or "").startswith(PKG):
            return c
        if c in self.cmemo:
            return self.cmemo[c]
        bases = tuple(self.cls(b) for b in c.__bases__)
        owner_cell = types.CellType()
        ns = {}
        for k, v in c.__dict__.items():
            if k in ("__dict__", "__weakref__"):
                continue
            if isinstance(v, types.FunctionType):
                ns[k] = self.func(v, c, owner_cell)
            elif isinstance(v, staticmethod):
                ns[k] = staticmethod(self.func(v.__func__, c, owner_cell))
            elif isinstance(v, classmethod):
                ns[k] = classmethod(self.func(v.__func__, c, owner_cell))
            elif isinstance(v, property):
                ns[k] = property(self.func(v.fget, c, owner_cell) if v.fget else None,
                                 self.func(v.fset, c, owner_cell) if v.fset else None,
                                 self.func(v.fdel, c, owner_cell) if v.fdel else None, v.__doc__)
            elif type(v) in _MUT and not k.startswith("__"):
                import copy
                ns[k] = copy.deepcopy(PRISTINE_CLS.get(c, {}).get(k, v))
            else:
                ns[k] = v
        ns.pop("__abstractmethods__", None)
        ns.pop("_abc_impl", None)
        nc = type(c)(c.__name__, bases, ns)
        nc.__module__ = c.__module__
        nc.__qualname__ = c.__qualname__
        nc.__verif_original__ = c
        owner_cell.cell_contents = nc
        self.cmemo[c] = nc
        # the shadow module must see the new class under the same name
        g = self.shadow.get(c.__module__)
        if g is not None and g.get(c.__name__) is c:
            g[c.__name__] = nc
        return nc

    def module(self, modname):
        """namespace object exposing the shadow globals of a module"""
        return types.SimpleNamespace(**self.globals_for(modname))


def extract_function_source(fn):
    import inspect
    try:
        src, line = inspect.getsourcelines(fn)
        return "".join(src), line
    except Exception:
        return "", 0
