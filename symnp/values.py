"""z3-backed scalars: SV (finite real / int), SB (bool), SIdx (symbolic index)."""
import math
from fractions import Fraction

import numpy as _np
import z3

from .engine import Engine, PathAbort, real_val


def _is_special(x):
    return isinstance(x, (float, _np.floating)) and not math.isfinite(x)


def lift(x):
    """python / numpy / symbolic number -> z3 real term (finite values only)"""
    if isinstance(x, SV):
        return z3.ToReal(x.e) if x.e.is_int() else x.e
    if isinstance(x, SB):
        return z3.If(x.e, z3.RealVal(1), z3.RealVal(0))
    if isinstance(x, SIdx):
        return z3.ToReal(x.e)
    if isinstance(x, (bool, _np.bool_)):
        return z3.RealVal(int(x))
    if isinstance(x, (int, _np.integer)):
        return z3.RealVal(int(x))
    if isinstance(x, (float, _np.floating)):
        if not math.isfinite(x):
            raise PathAbort(f"lift of non-finite value {x}")
        return real_val(float(x))
    if isinstance(x, Fraction):
        return real_val(x)
    if isinstance(x, _np.ndarray) and x.size == 1:
        return lift(x.reshape(-1)[0])
    if isinstance(x, z3.ArithRef):
        return z3.ToReal(x) if x.is_int() else x
    raise TypeError(f"lift: {type(x)}")


def raw_term(x, want_int):
    """z3 term of x; Int-sorted when want_int and x is integer-like (python int / Int-sorted SV / SIdx)"""
    if want_int:
        if isinstance(x, SV) and x.e.is_int():
            return x.e
        if isinstance(x, SIdx):
            return x.e
        if isinstance(x, (int, _np.integer)) and not isinstance(x, (bool, _np.bool_)):
            return z3.IntVal(int(x))
        if isinstance(x, (float, _np.floating)) and math.isfinite(x) and float(x) == int(x) and abs(x) < 2 ** 53:
            return z3.IntVal(int(x))
    return lift(x)


def int_sorted(x):
    return (isinstance(x, SV) and x.e.is_int()) or isinstance(x, SIdx)


def arith_pair(a, b):
    """terms for a binary operation: both Int when one side is Int-sorted and the other integer-like, else both Real.
    (z3 decides integrality arguments on Int terms instantly but diverges on the same facts written through to_real.)"""
    if int_sorted(a) or int_sorted(b):
        ta, tb = raw_term(a, True), raw_term(b, True)
        if ta.is_int() and tb.is_int():
            return ta, tb
    return lift(a), lift(b)


def bexpr(x):
    if isinstance(x, SB):
        return x.e
    if isinstance(x, (bool, _np.bool_)):
        return z3.BoolVal(bool(x))
    if isinstance(x, z3.BoolRef):
        return x
    if isinstance(x, _np.ndarray) and x.size == 1:
        return bexpr(x.reshape(-1)[0])
    raise TypeError(f"bexpr: {type(x)}")


def mkbool(e):
    e = z3.simplify(e)
    if z3.is_true(e):
        return _np.True_      # numpy bools: `~x` must be logical negation as for numpy comparisons
    if z3.is_false(e):
        return _np.False_
    return SB(e)


def _sym_ufunc(self, ufunc, method, *inputs, **kw):
    from .arrays import sym_ufunc
    return sym_ufunc(ufunc, method, inputs, kw)


class SB:
    """symbolic bool"""
    __slots__ = ("e",)
    __array_ufunc__ = _sym_ufunc
    __array_priority__ = 1000

    def __init__(self, e):
        self.e = e

    def __bool__(self):
        return Engine.cur.branch(self.e)

    def __invert__(self):
        return mkbool(z3.Not(self.e))

    def __and__(self, o):
        if isinstance(o, _np.ndarray):
            return NotImplemented
        return mkbool(z3.And(self.e, bexpr(o)))
    __rand__ = __and__

    def __or__(self, o):
        if isinstance(o, _np.ndarray):
            return NotImplemented
        return mkbool(z3.Or(self.e, bexpr(o)))
    __ror__ = __or__

    def __xor__(self, o):
        return mkbool(z3.Xor(self.e, bexpr(o)))
    __rxor__ = __xor__

    def __eq__(self, o):
        if isinstance(o, _np.ndarray):
            return NotImplemented
        return mkbool(self.e == bexpr(o))

    def __ne__(self, o):
        if isinstance(o, _np.ndarray):
            return NotImplemented
        return mkbool(self.e != bexpr(o))

    def __hash__(self):
        return id(self)

    # numeric comparisons (True == 1, False == 0), as for numpy bools
    def __le__(self, o):
        return self._num() <= (o._num() if isinstance(o, SB) else o)

    def __lt__(self, o):
        return self._num() < (o._num() if isinstance(o, SB) else o)

    def __ge__(self, o):
        return self._num() >= (o._num() if isinstance(o, SB) else o)

    def __gt__(self, o):
        return self._num() > (o._num() if isinstance(o, SB) else o)

    def __repr__(self):
        return f"SB({self.e})"

    def __deepcopy__(self, memo):
        return self

    def __copy__(self):
        return self

    def _num(self):
        return SV(z3.If(self.e, z3.IntVal(1), z3.IntVal(0)), is_int=True)

    def __add__(self, o):
        return self._num() + (o._num() if isinstance(o, SB) else o)
    __radd__ = __add__

    def __mul__(self, o):
        return self._num() * (o._num() if isinstance(o, SB) else o)
    __rmul__ = __mul__

    def __sub__(self, o):
        return self._num() - (o._num() if isinstance(o, SB) else o)

    def __rsub__(self, o):
        return o - self._num()

    # numpy scalar API
    size = 1
    ndim = 0
    shape = ()

    def item(self):
        return self

    def copy(self):
        return self

    def any(self):
        return self

    def all(self):
        return self


def _div_by_zero(num):
    """numpy semantics of num / 0.0 (forks on the sign of a symbolic numerator)"""
    if isinstance(num, SV):
        if num > 0:
            return math.inf
        if num < 0:
            return -math.inf
        return math.nan
    with _np.errstate(all="ignore"):
        return float(_np.float64(num) / _np.float64(0.0))


class SV:
    """symbolic finite real (is_int: known to be integer valued)"""
    __slots__ = ("e", "sq", "is_int")
    __array_ufunc__ = _sym_ufunc
    __array_priority__ = 1000

    def __init__(self, e, sq=None, is_int=False):
        self.e = e
        self.sq = sq
        self.is_int = is_int

    # -- arithmetic ---------------------------------------------------------
    def _bin(self, o, f, spec, keep_int=False):
        if isinstance(o, _np.ndarray):
            if o.ndim == 0 or o.size == 1 and False:
                o = o.item()
            else:
                return NotImplemented
        if isinstance(o, SB):
            o = o._num()
        if isinstance(o, SIdx):
            o = SV(z3.ToReal(o.e), is_int=True)
        if _is_special(o):
            return spec(float(o))
        if isinstance(o, complex):
            raise PathAbort("complex arithmetic")
        ii = keep_int and self.is_int and (
            (isinstance(o, SV) and o.is_int) or isinstance(o, (int, _np.integer)) and not isinstance(o, bool))
        if keep_int:
            ta, tb = arith_pair(self, o)
        else:
            ta, tb = lift(self), lift(o)
        return SV(z3.simplify(f(ta, tb)), is_int=ii)

    def __add__(self, o):
        return self._bin(o, lambda a, b: a + b, lambda s: s, True)
    __radd__ = __add__

    def __sub__(self, o):
        return self._bin(o, lambda a, b: a - b, lambda s: -s, True)

    def __rsub__(self, o):
        return self._bin(o, lambda a, b: b - a, lambda s: s, True)

    def _mul_special(self, s):
        if math.isnan(s):
            return s
        if self > 0:
            return s
        if self < 0:
            return -s
        return math.nan

    def __mul__(self, o):
        return self._bin(o, lambda a, b: a * b, self._mul_special, True)
    __rmul__ = __mul__

    def __truediv__(self, o):
        if isinstance(o, _np.ndarray):
            return NotImplemented
        if _is_special(o):
            return math.nan if math.isnan(o) else (0.0 if True else 0.0)
        if isinstance(o, (SV, SB, SIdx)):
            nz = (o != 0)
            if not nz:
                return _div_by_zero(self)
        elif o == 0:
            return _div_by_zero(self)
        return self._bin(o, lambda a, b: a / b, None)

    def __rtruediv__(self, o):
        if isinstance(o, _np.ndarray):
            return NotImplemented
        if not (self != 0):
            return _div_by_zero(o)
        if _is_special(o):
            if math.isnan(o):
                return o
            return o if self > 0 else -o
        return self._bin(o, lambda a, b: b / a, None)

    def __floordiv__(self, o):
        q = self / o
        return q.floor() if isinstance(q, SV) else math.floor(q)

    def __mod__(self, o):
        if isinstance(o, (int, float, _np.integer, _np.floating)) and o > 0 or isinstance(o, SV):
            q = self / o
            fl = q.floor() if isinstance(q, SV) else math.floor(q)
            return self - fl * o
        raise PathAbort("mod")

    def __neg__(self):
        return SV(z3.simplify(-self.e), is_int=self.is_int)

    @property
    def r(self):
        """Real-sorted term"""
        return z3.ToReal(self.e) if self.e.is_int() else self.e

    def __pos__(self):
        return self

    def __abs__(self):
        return SV(z3.simplify(z3.If(self.e >= 0, self.e, -self.e)), is_int=self.is_int)

    def __pow__(self, p):
        if isinstance(p, _np.ndarray):
            return NotImplemented
        if isinstance(p, (SV, SB)):
            raise PathAbort("symbolic exponent")
        if p == 2:
            return SV(self.sq) if self.sq is not None else SV(z3.simplify(self.r * self.r), is_int=self.is_int)
        if p == 1:
            return self
        if p == 0:
            return 1.0
        if p == 0.5:
            from .ufs import s_sqrt
            return s_sqrt(self)
        if isinstance(p, (int, _np.integer)) and 2 < p <= 6:
            r = self
            for _ in range(int(p) - 1):
                r = r * self
            return r
        if p == -1:
            return 1 / self
        if p == -2:
            return 1 / (self * self)
        raise PathAbort(f"pow {p}")

    def __rpow__(self, base):
        raise PathAbort("symbolic exponent")

    # -- comparisons --------------------------------------------------------
    def _cmp(self, o, f, spec):
        if isinstance(o, _np.ndarray):
            if o.size == 1 and o.ndim == 0:
                o = o.item()
            else:
                return NotImplemented
        if o is None:
            return spec(math.nan)
        if isinstance(o, (float, _np.floating)) and not math.isfinite(o):
            return spec(float(o))
        if isinstance(o, (str, bytes)):
            return spec(math.nan)
        ta, tb = arith_pair(self, o)
        return mkbool(f(ta, tb))

    def __lt__(self, o):
        return self._cmp(o, lambda a, b: a < b, lambda s: _np.bool_(s == math.inf))

    def __le__(self, o):
        return self._cmp(o, lambda a, b: a <= b, lambda s: _np.bool_(s == math.inf))

    def __gt__(self, o):
        return self._cmp(o, lambda a, b: a > b, lambda s: _np.bool_(s == -math.inf))

    def __ge__(self, o):
        return self._cmp(o, lambda a, b: a >= b, lambda s: _np.bool_(s == -math.inf))

    def __eq__(self, o):
        return self._cmp(o, lambda a, b: a == b, lambda s: _np.False_)

    def __ne__(self, o):
        return self._cmp(o, lambda a, b: a != b, lambda s: _np.True_)

    def __hash__(self):
        return id(self)

    def __repr__(self):
        return f"SV({self.e})"

    def __bool__(self):
        return bool(self != 0)

    # -- rounding -----------------------------------------------------------
    def rint(self):
        """round half to even (np.round / np.rint): a fresh Int k with |x - k| <= 1/2 and the tie rule
        (no nested to_int terms: z3 treats it as mixed integer linear arithmetic)"""
        if self.is_int:
            return self
        eng = Engine.cur
        x = z3.simplify(self.r)
        it = as_int_term(x)
        if it is not None:       # already integer valued: rounding is the identity
            return SV(z3.simplify(it), is_int=True)
        cache = eng.__dict__.setdefault("rint_cache", {})
        hit = cache.get(x.get_id())
        if hit is not None:      # same term rounded again (z3 hash-conses terms): same integer
            return hit[1]
        k = eng.z3_int("rnd")
        kr = z3.ToReal(k)
        half = z3.RealVal(1) / 2
        eng.assume(z3.And(kr - half <= x, x <= kr + half,
                          z3.Implies(x - kr == half, k % 2 == 0), z3.Implies(kr - x == half, k % 2 == 0)))
        r = SV(k, is_int=True)
        cache[x.get_id()] = (x, r)
        return r

    def floor(self):
        if self.is_int:
            return self
        return SV(z3.simplify(z3.ToReal(z3.ToInt(self.r))), is_int=True)

    def ceil(self):
        if self.is_int:
            return self
        return SV(z3.simplify(-z3.ToReal(z3.ToInt(-self.r))), is_int=True)

    def __round__(self, n=None):
        return self.rint()

    def __floor__(self):
        return self.floor()

    def __ceil__(self):
        return self.ceil()

    # -- concretisation -----------------------------------------------------
    def __float__(self):
        raise PathAbort("concretisation of a symbolic float requested")

    def __int__(self):
        return self.__index__()

    def __index__(self):
        if not self.is_int:
            raise PathAbort("index from non-integer symbolic value")
        for k in range(0, 9):
            if bool(mkbool(self.e == k)):
                return k
        # larger values: deterministic bisection over 9..4095 (every feasible value gets its own path)
        if not bool(mkbool(z3.And(self.e >= 9, self.e <= 4095))):
            raise PathAbort("index out of modelled range 0..4095")
        lo, hi = 9, 4095
        while lo < hi:
            mid = (lo + hi) // 2
            if bool(mkbool(self.e <= mid)):
                hi = mid
            else:
                lo = mid + 1
        return lo

    def __deepcopy__(self, memo):
        return self

    def __copy__(self):
        return self

    # -- numpy scalar API (np.float64 look-alike) ---------------------------
    size = 1
    ndim = 0
    shape = ()
    dtype = _np.dtype(float)
    real = property(lambda self: self)
    imag = 0.0

    def item(self):
        return self

    def copy(self):
        return self

    def flatten(self):
        from .arrays import arr1
        return arr1([self])

    def ravel(self):
        return self.flatten()

    def reshape(self, *shape):
        return self.flatten().reshape(*shape)

    def astype(self, t, **kw):
        if t in (float, "float", _np.float64):
            return self
        if t in (int, "int") and self.is_int:
            return self
        raise PathAbort(f"SV.astype({t})")

    def squeeze(self):
        return self

    def max(self, *a, **k):
        return self

    def min(self, *a, **k):
        return self

    def sum(self, *a, **k):
        return self

    def any(self):
        return self != 0

    def all(self):
        return self != 0


def _scaled(x, depth=0):
    """(num, den, t): x == (num/den) * t with t an Int-sorted term, or None when x is not syntactically a rational
    multiple of an integer term (integer combinations of to_real(int), constants, if-then-else of such)"""
    from fractions import Fraction
    from math import gcd
    if depth > 60:
        return None
    if x.is_int():
        return (1, 1, x)
    if z3.is_rational_value(x):
        return (x.numerator_as_long(), x.denominator_as_long(), z3.IntVal(1))
    if z3.is_to_real(x):
        return (1, 1, x.arg(0))
    if z3.is_app_of(x, z3.Z3_OP_UMINUS):
        r = _scaled(x.arg(0), depth + 1)
        return None if r is None else (-r[0], r[1], r[2])
    if z3.is_mul(x):
        num, den, terms = 1, 1, []
        for c in x.children():
            r = _scaled(c, depth + 1)
            if r is None:
                return None
            num *= r[0]
            den *= r[1]
            if not (z3.is_int_value(r[2]) and r[2].as_long() == 1):
                terms.append(r[2])
        g = gcd(num, den) or 1
        num, den = num // g, den // g
        t = z3.IntVal(1)
        if terms:
            t = terms[0]
            for u in terms[1:]:
                t = t * u
        return (num, den, t)
    if z3.is_add(x) or z3.is_sub(x) or z3.is_app_of(x, z3.Z3_OP_ITE):
        ite = z3.is_app_of(x, z3.Z3_OP_ITE)
        ch = x.children()[1:] if ite else x.children()
        rs = [_scaled(c, depth + 1) for c in ch]
        if any(r is None for r in rs):
            return None
        L = 1
        for r in rs:
            L = L * r[1] // gcd(L, r[1])
        ts = [(r[0] * (L // r[1])) * r[2] if r[0] * (L // r[1]) != 1 else r[2] for r in rs]
        if ite:
            t = z3.If(x.arg(0), ts[0], ts[1])
        elif z3.is_add(x):
            t = z3.Sum(ts) if len(ts) > 1 else ts[0]
        else:
            t = ts[0]
            for u in ts[1:]:
                t = t - u
        return (1, L, t)
    return None


def as_int_term(x, depth=0):
    """Int-sorted term equal to the Real term x when x is syntactically integer valued; None otherwise"""
    r = _scaled(x)
    if r is None or r[1] != 1:
        return None
    return r[2] if r[0] == 1 else r[0] * r[2]


class SIdx:
    """symbolic integer index in [0,n) (no forking)"""
    size = 1
    ndim = 0
    shape = ()
    __array_priority__ = 1000

    def __init__(self, e, n):
        self.e = e
        self.n = n

    def item(self):
        return self

    def copy(self):
        return self

    def __deepcopy__(self, memo):
        return self

    def __add__(self, o):
        if isinstance(o, (int, _np.integer)):
            return SIdx(self.e + int(o), self.n + int(o))
        return NotImplemented
    __radd__ = __add__

    def __eq__(self, o):
        if isinstance(o, (int, _np.integer)):
            return mkbool(self.e == int(o))
        if isinstance(o, SIdx):
            return mkbool(self.e == o.e)
        return NotImplemented

    def __ne__(self, o):
        r = self.__eq__(o)
        return r if r is NotImplemented else (~r if isinstance(r, SB) else not r)

    def __hash__(self):
        return id(self)

    def __index__(self):
        for k in range(self.n):
            if bool(mkbool(self.e == k)):
                return k
        raise PathAbort("SIdx out of range")

    def __int__(self):
        return self.__index__()

    def __repr__(self):
        return f"SIdx({self.e}<{self.n})"


def s_max(a, b):
    """np.maximum on scalars (nan propagates)"""
    if isinstance(a, SV) or isinstance(b, SV):
        if _is_special(a) or _is_special(b):
            s = a if _is_special(a) else b
            if math.isnan(s):
                return s
            c = a >= b
            return a if c else b
        return SV(z3.simplify(z3.If(lift(a) >= lift(b), lift(a), lift(b))),
                  is_int=getattr(a, "is_int", isinstance(a, (int, _np.integer))) and getattr(b, "is_int", isinstance(b, (int, _np.integer))))
    with _np.errstate(all="ignore"):
        return _np.maximum(a, b)


def s_min(a, b):
    if isinstance(a, SV) or isinstance(b, SV):
        if _is_special(a) or _is_special(b):
            s = a if _is_special(a) else b
            if math.isnan(s):
                return s
            c = a <= b
            return a if c else b
        return SV(z3.simplify(z3.If(lift(a) <= lift(b), lift(a), lift(b))),
                  is_int=getattr(a, "is_int", isinstance(a, (int, _np.integer))) and getattr(b, "is_int", isinstance(b, (int, _np.integer))))
    with _np.errstate(all="ignore"):
        return _np.minimum(a, b)


def _isnan_c(x):
    return isinstance(x, (float, _np.floating)) and math.isnan(x)


def s_fmin(a, b):
    """np.fmin: a NaN operand is ignored (symbolic values are finite)"""
    if _isnan_c(a):
        return b
    if _isnan_c(b):
        return a
    if isinstance(a, SV) or isinstance(b, SV):
        return s_min(a, b)
    return _np.fmin(a, b)


def s_fmax(a, b):
    if _isnan_c(a):
        return b
    if _isnan_c(b):
        return a
    if isinstance(a, SV) or isinstance(b, SV):
        return s_max(a, b)
    return _np.fmax(a, b)


def is_sym(x):
    return isinstance(x, (SV, SB, SIdx))
