"""z3-backed scalars: SV (finite real / int), SB (bool), SIdx (symbolic index)."""
import math
from fractions import Fraction

import numpy as _np
import z3

from .engine import Engine, PathAbort, real_val


def _is_special(x):
    return isinstance(x, (float, _np.floating)) and not math.isfinite(x)


def lift(x):
    """python / numpy / symbolic number -> z3 real term (finite values only)"""
    if isinstance(x, SV):
        return z3.ToReal(x.e) if x.e.is_int() else x.e
    if isinstance(x, SB):
        return z3.If(x.e, z3.RealVal(1), z3.RealVal(0))
    if isinstance(x, SIdx):
        return z3.ToReal(x.e)
    if isinstance(x, (bool, _np.bool_)):
        return z3.RealVal(int(x))
    if isinstance(x, (int, _np.integer)):
        return z3.RealVal(int(x))
    if isinstance(x, (float, _np.floating)):
        if not math.isfinite(x):
            raise PathAbort(f"lift of non-finite value {x}")
        return real_val(float(x))
    if isinstance(x, Fraction):
        return real_val(x)
    if isinstance(x, _np.ndarray) and x.size == 1:
        return lift(x.reshape(-1)[0])
    if isinstance(x, z3.ArithRef):
        return z3.ToReal(x) if x.is_int() else x
    raise TypeError(f"lift: {type(x)}")


def raw_term(x, want_int):
    """z3 term of x; Int-sorted when want_int and x is integer-like (python int / Int-sorted SV / SIdx)"""
    if want_int:
        if isinstance(x, SV) and x.e.is_int():
            return x.e
        if isinstance(x, SIdx):
            return x.e
        if isinstance(x, (int, _np.integer)) and not isinstance(x, (bool, _np.bool_)):
            return z3.IntVal(int(x))
        if isinstance(x, (float, _np.floating)) and math.isfinite(x) and float(x) == int(x) and abs(x) < 2 ** 53:
            return z3.IntVal(int(x))
    return lift(x)


def int_sorted(x):
    return (isinstance(x, SV) and x.e.is_int()) or isinstance(x, SIdx)


def arith_pair(a, b):
    """terms for a binary operation: both Int when one side is Int-sorted and the other integer-like, else both Real.
    (z3 decides integrality arguments on Int terms instantly but diverges on the same facts written through to_real.)"""
    if int_sorted(a) or int_sorted(b):
        ta, tb = raw_term(a, True), raw_term(b, True)
        if ta.is_int() and tb.is_int():
            return ta, tb
    return lift(a), lift(b)


def bexpr(x):
    if isinstance(x, SB):
        return x.e
    if isinstance(x, (bool, _np.bool_)):
        return z3.BoolVal(bool(x))
    if isinstance(x, z3.BoolRef):
        return x
    if isinstance(x, _np.ndarray) and x.size == 1:
        return bexpr(x.reshape(-1)[0])
    raise TypeError(f"bexpr: {type(x)}")


def mkbool(e):
    e = z3.simplify(e)
    if z3.is_true(e):
        return _np.True_      # numpy bools: `~x` must be logical negation as for numpy comparisons
    if z3.is_false(e):
        return _np.False_
    return SB(e)


def _sym_ufunc(self, ufunc, method, *inputs, **kw):
    from .arrays import sym_ufunc
    return sym_ufunc(ufunc, method, inputs, kw)


class SB:
    """symbolic bool"""
    __slots__ = ("e",)
    __array_ufunc__ = _sym_ufunc
    __array_priority__ = 1000

    def __init__(self, e):
        self.e = e

    def __bool__(self):
        return Engine.cur.branch(self.e)

    def __invert__(self):
        return mkbool(z3.Not(self.e))

    def __and__(self, o):
        if isinstance(o, _np.ndarray):
            return NotImplemented
        return mkbool(z3.And(self.e, bexpr(o)))
    __rand__ = __and__

    def __or__(self, o):
        if isinstance(o, _np.ndarray):
            return NotImplemented
        return mkbool(z3.Or(self.e, bexpr(o)))
    __ror__ = __or__

    def __xor__(self, o):
        return mkbool(z3.Xor(self.e, bexpr(o)))
    __rxor__ = __xor__

    def __eq__(self, o):
        if isinstance(o, _np.ndarray):
            return NotImplemented
        return mkbool(self.e == bexpr(o))

    def __ne__(self, o):
        if isinstance(o, _np.ndarray):
            return NotImplemented
        return mkbool(self.e != bexpr(o))

    def __hash__(self):
        return id(self)

    # numeric comparisons (True == 1, False == 0), as for numpy bools
    def __le__(self, o):
        return self._num() <= (o._num() if isinstance(o, SB) else o)

    def __lt__(self, o):
        return self._num() < (o._num() if isinstance(o, SB) else o)

    def __ge__(self, o):
        return self._num() >= (o._num() if isinstance(o, SB) else o)

    def __gt__(self, o):
        return self._num() > (o._num() if isinstance(o, SB) else o)

    def __repr__(self):
        return f"SB({self.e})"

    def __deepcopy__(self, memo):
        return self

    def __copy__(self):
        return self

    def _num(self):
        return SV(z3.If(self.e, z3.IntVal(1), z3.IntVal(0)), is_int=True)

    def __add__(self, o):
        return self._num() + (o._num() if isinstance(o, SB) else o)
    __radd__ = __add__

    def __mul__(self, o):
        return self._num() * (o._num() if isinstance(o, SB) else o)
    __rmul__ = __mul__

    def __sub__(self, o):
        return self._num() - (o._num() if isinstance(o, SB) else o)

    def __rsub__(self, o):
        return o - self._num()

    # numpy scalar API
    size = 1
    ndim = 0
    shape = ()

    def item(self):
        return self

    def copy(self):
        return self

    def any(self):
        return self

    def all(self):
        return self


def _div_by_zero(num):
    """numpy semantics of num / 0.0 (forks on the sign of a symbolic numerator)"""
    if isinstance(num, SV):
        if num > 0:
            return math.inf
        if num < 0:
            return -math.inf
        return math.nan
    with _np.errstate(all="ignore"):
        return float(_np.float64(num) / _np.float64(0.0))


class SV:
    """symbolic finite real (is_int: known to be integer valued)"""
    __slots__ = ("e", "sq", "is_int")
    __array_ufunc__ = _sym_ufunc
    __array_priority__ = 1000

    def __init__(self, e, sq=None, is_int=False):
        self.e = e
        self.sq = sq
        self.is_int = is_int

    # -- arithmetic ---------------------------------------------------------
    def _bin(self, o, f, spec, keep_int=False):
        if isinstance(o, _np.ndarray):
            if o.ndim == 0 or o.size == 1 and False:
                o = o.item()
            else:
                return NotImplemented
        if isinstance(o, SB):
            o = o._num()
        if isinstance(o, SIdx):
            o = SV(z3.ToReal(o.e), is_int=True)
        if _is_special(o):
            return spec(float(o))
        if isinstance(o, complex):
            raise PathAbort("complex arithmetic")
        ii = keep_int and self.is_int and (
            (isinstance(o, SV) and o.is_int) or isinstance(o, (int, _np.integer)) and not isinstance(o, bool))
        if keep_int:
            ta, tb = arith_pair(self, o)
        else:
            ta, tb = lift(self), lift(o)
        return SV(z3.simplify(f(ta, tb)), is_int=ii)

    def __add__(self, o):
        return self._bin(o, lambda a, b: a + b, lambda s: s, True)
    __radd__ = __add__

    def __sub__(self, o):
        return self._bin(o, lambda a, b: a - b, lambda s: -s, True)

    def __rsub__(self, o):
        return self._bin(o, lambda a, b: b - a, lambda s: s, True)

    def _mul_special(self, s):
        if math.isnan(s):
            return s
        if self > 0:
            return s
        if self < 0:
            return -s
        return math.nan

    def __mul__(self, o):
        return self._bin(o, lambda a, b: a * b, self._mul_special, True)
    __rmul__ = __mul__

    def __truediv__(self, o):
        if isinstance(o, _np.ndarray):
            return NotImplemented
        if _is_special(o):
            return math.nan if math.isnan(o) else (0.0 if True else 0.0)
        if isinstance(o, (SV, SB, SIdx)):
            nz = (o != 0)
            if not nz:
                return _div_by_zero(self)
        elif o == 0:
            return _div_by_zero(self)
        return self._bin(o, lambda a, b: a / b, None)

    def __rtruediv__(self, o):
        if isinstance(o, _np.ndarray):
            return NotImplemented
        if not (self != 0):
            return _div_by_zero(o)
        if _is_special(o):
            if math.isnan(o):
                return o
            return o if self > 0 else -o
        return self._bin(o, lambda a, b: b / a, None)

    def __floordiv__(self, o):
        q = self / o
        return q.floor() if isinstance(q, SV) else math.floor(q)

    def __mod__(self, o):
        if isinstance(o, (int, float, _np.integer, _np.floating)) and o > 0 or isinstance(o, SV):
            q = self / o
            fl = q.floor() if isinstance(q, SV) else math.floor(q)
            return self - fl * o
        raise PathAbort("mod")

    def __neg__(self):
        return SV(z3.simplify(-self.e), is_int=self.is_int)

    @property
    def r(self):
        """Real-sorted term"""
        return z3.ToReal(self.e) if self.e.is_int() else self.e

    def __pos__(self):
        return self

    def __abs__(self):
        return SV(z3.simplify(z3.If(self.e >= 0, self.e, -self.e)), is_int=self.is_int)

    def __pow__(self, p):
        if isinstance(p, _np.ndarray):
            return NotImplemented
        if isinstance(p, (SV, SB)):
            raise PathAbort("symbolic exponent")
        if p == 2:
            return SV(self.sq) if self.sq is not None else SV(z3.simplify(self.r * self.r), is_int=self.is_int)
        if p == 1:
            return self
        if p == 0:
            return 1.0
        if p == 0.5:
            from .ufs import s_sqrt
            return s_sqrt(self)
        if isinstance(p, (int, _np.integer)) and 2 < p <= 6:
            r = self
            for _ in range(int(p) - 1):
                r = r * self
            return r
        if p == -1:
            return 1 / self
        if p == -2:
            return 1 / (self * self)
        raise PathAbort(f"pow {p}")

    def __rpow__(self, base):
        raise PathAbort("symbolic exponent")

    # -- comparisons --------------------------------------------------------
    def _cmp(self, o, f, spec):
        if isinstance(o, _np.ndarray):
            if o.size == 1 and o.ndim == 0:
                o = o.item()
            else:
                return NotImplemented
        if o is None:
            return spec(math.nan)
        if isinstance(o, (float, _np.floating)) and not math.isfinite(o):
            return spec(float(o))
        if isinstance(o, (str, bytes)):
            return spec(math.nan)
        ta, tb = arith_pair(self, o)
        return mkbool(f(ta, tb))

    def __lt__(self, o):
        return self._cmp(o, lambda a, b: a < b, lambda s: _np.bool_(s == math.inf))

    def __le__(self, o):
        return self._cmp(o, lambda a, b: a <= b, lambda s: _np.bool_(s == math.inf))

    def __gt__(self, o):
        return self._cmp(o, lambda a, b: a > b, lambda s: _np.bool_(s == -math.inf))

    def __ge__(self, o):
        return self._cmp(o, lambda a, b: a >= b, lambda s: _np.bool_(s == -math.inf))

    def __eq__(self, o):
        return self._cmp(o, lambda a, b: a == b, lambda s: _np.False_)

    def __ne__(self, o):
        return self._cmp(o, lambda a, b: a != b, lambda s: _np.True_)

    def __hash__(self):
        return id(self)

    def __repr__(self):
        return f"SV({self.e})"

    def __bool__(self):
        return bool(self != 0)

    # -- rounding -----------------------------------------------------------
    def rint(self):
        """round half to even (np.round / np.rint)"""
        if self.is_int:
            return self
        x = self.r
        f = z3.ToInt(x)
        fr = x - z3.ToReal(f)
        half = z3.RealVal(1) / 2
        r = z3.If(fr < half, f, z3.If(fr > half, f + 1, z3.If(f % 2 == 0, f, f + 1)))
        return SV(z3.simplify(z3.ToReal(r)), is_int=True)

    def floor(self):
        if self.is_int:
            return self
        return SV(z3.simplify(z3.ToReal(z3.ToInt(self.r))), is_int=True)

    def ceil(self):
        if self.is_int:
            return self
        return SV(z3.simplify(-z3.ToReal(z3.ToInt(-self.r))), is_int=True)

    def __round__(self, n=None):
        return self.rint()

    def __floor__(self):
        return self.floor()

    def __ceil__(self):
        return self.ceil()

    # -- concretisation -----------------------------------------------------
    def __float__(self):
        raise PathAbort("concretisation of a symbolic float requested")

    def __int__(self):
        return self.__index__()

    def __index__(self):
        if not self.is_int:
            raise PathAbort("index from non-integer symbolic value")
        for k in range(0, 65):
            if bool(mkbool(self.e == k)):
                return k
        raise PathAbort("index out of modelled range 0..64")

    def __deepcopy__(self, memo):
        return self

    def __copy__(self):
        return self

    # -- numpy scalar API (np.float64 look-alike) ---------------------------
    size = 1
    ndim = 0
    shape = ()
    dtype = _np.dtype(float)
    real = property(lambda self: self)
    imag = 0.0

    def item(self):
        return self

    def copy(self):
        return self

    def flatten(self):
        from .arrays import arr1
        return arr1([self])

    def ravel(self):
        return self.flatten()

    def reshape(self, *shape):
        return self.flatten().reshape(*shape)

    def astype(self, t, **kw):
        if t in (float, "float", _np.float64):
            return self
        if t in (int, "int") and self.is_int:
            return self
        raise PathAbort(f"SV.astype({t})")

    def squeeze(self):
        return self

    def max(self, *a, **k):
        return self

    def min(self, *a, **k):
        return self

    def sum(self, *a, **k):
        return self

    def any(self):
        return self != 0

    def all(self):
        return self != 0


class SIdx:
    """symbolic integer index in [0,n) (no forking)"""
    size = 1
    ndim = 0
    shape = ()
    __array_priority__ = 1000

    def __init__(self, e, n):
        self.e = e
        self.n = n

    def item(self):
        return self

    def copy(self):
        return self

    def __deepcopy__(self, memo):
        return self

    def __add__(self, o):
        if isinstance(o, (int, _np.integer)):
            return SIdx(self.e + int(o), self.n + int(o))
        return NotImplemented
    __radd__ = __add__

    def __eq__(self, o):
        if isinstance(o, (int, _np.integer)):
            return mkbool(self.e == int(o))
        if isinstance(o, SIdx):
            return mkbool(self.e == o.e)
        return NotImplemented

    def __ne__(self, o):
        r = self.__eq__(o)
        return r if r is NotImplemented else (~r if isinstance(r, SB) else not r)

    def __hash__(self):
        return id(self)

    def __index__(self):
        for k in range(self.n):
            if bool(mkbool(self.e == k)):
                return k
        raise PathAbort("SIdx out of range")

    def __int__(self):
        return self.__index__()

    def __repr__(self):
        return f"SIdx({self.e}<{self.n})"


def s_max(a, b):
    """np.maximum on scalars (nan propagates)"""
    if isinstance(a, SV) or isinstance(b, SV):
        if _is_special(a) or _is_special(b):
            s = a if _is_special(a) else b
            if math.isnan(s):
                return s
            c = a >= b
            return a if c else b
        return SV(z3.simplify(z3.If(lift(a) >= lift(b), lift(a), lift(b))),
                  is_int=getattr(a, "is_int", isinstance(a, int)) and getattr(b, "is_int", isinstance(b, int)))
    with _np.errstate(all="ignore"):
        return _np.maximum(a, b)


def s_min(a, b):
    if isinstance(a, SV) or isinstance(b, SV):
        if _is_special(a) or _is_special(b):
            s = a if _is_special(a) else b
            if math.isnan(s):
                return s
            c = a <= b
            return a if c else b
        return SV(z3.simplify(z3.If(lift(a) <= lift(b), lift(a), lift(b))),
                  is_int=getattr(a, "is_int", isinstance(a, int)) and getattr(b, "is_int", isinstance(b, int)))
    with _np.errstate(all="ignore"):
        return _np.minimum(a, b)


def is_sym(x):
    return isinstance(x, (SV, SB, SIdx))
