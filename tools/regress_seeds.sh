#!/bin/bash
# tools/regress_seeds.sh : apply every stored seeded change to /repo in turn, run the check(s) named in its meta.json, revert.
cd /verif
for d in seeded/C*; do
  id=$(basename $d)
  checks=$(python3 -c "import json; print(' '.join(json.load(open('$d/meta.json'))['detection']['checks']))")
  prop=$(python3 -c "import json; print(json.load(open('$d/meta.json'))['property'])")
  res=$(tools/eval_seed.sh /verif/$d/patch.diff $prop 2>&1 | head -1)
  echo "$id :: $res" | cut -c1-200
done
