#!/usr/bin/env python3
"""Regenerate MANIFEST.json from vf/props.py (claimed checks) and tools/na.json (reasons for unclaimed properties)."""
import json, os, sys
sys.path.insert(0, os.path.dirname(os.path.dirname(os.path.abspath(__file__))))
from vf import props
V = os.path.dirname(os.path.dirname(os.path.abspath(__file__)))
allp = [json.loads(l) for l in open(os.path.join(V, "properties.jsonl"))]
na_reasons = json.load(open(os.path.join(V, "tools", "na.json")))
checks = []
for pid in sorted(props.PROPS):
    P = props.PROPS[pid]
    checks.append(dict(
        property_id=pid, quick_cmd=f"./check {pid} --tier quick", thorough_cmd=f"./check {pid} --tier thorough",
        evidence_file=f"/verif/evidence/{pid}.json", replay_cmd_template=f"./check {pid} --replay {{path}}", engine="symnp",
        level_claimed=dict(category=P.get("category", "model_checking"), text=P.get("level_text", "Bounded symbolic execution of the real functions; every branch and obligation decided by z3; holds for every value within the stated bounds."), design_ref=f"DESIGN.md §3 {pid}"),
        level_note=P.get("level_note", "Real-arithmetic model of floats; environment (target, GP, RNG, SciPy, logging, timers) is nondeterministic stubs listed in the evidence; run-level statements by induction over units. Outside: " + "; ".join(P.get("outside", []))),
        technique="bounded symbolic execution of the real Python bytecode on z3-backed NumPy object arrays; SMT solver (z3) decides each path condition and each obligation; counterexamples replayed on the real code"))
na = [dict(property_id=p["id"], reason=na_reasons.get(p["id"], "check not built yet in this revision (see DESIGN.md)")) for p in allp if p["id"] not in props.PROPS]
m = dict(version=1, setup_cmd="./setup.sh",
         hooks=dict(guard="PYBADS_VERIF", enable="no source hooks are needed: units are rebound from outside (types.FunctionType on the current bytecode) and loop bodies are cut from the AST of the current source; PYBADS_VERIF=1 is exported by ./check but read by nothing in /repo",
                    baseline_off_cmd="cd /repo && /venv/bin/python -m pytest -ra -q -p no:cacheprovider --timeout=900 --continue-on-collection-errors",
                    source_commits=[], add_only=True),
         engines=[dict(name="symnp", path="/verif/symnp", serves_properties=sorted(props.PROPS), kind_free_text="path-forking symbolic executor for NumPy code on z3 (real bytecode of /repo, symbolic object arrays, replay on plain NumPy)")],
         checks=checks, not_applicable=na,
         notes="Exit codes: 0 holds within bounds; 1 replayed violation (VIOLATION line); 2 inconclusive (never reported as success). Known findings: known_findings.json. Fix commits in /repo: see known_findings.json status=fixed.")
json.dump(m, open(os.path.join(V, "MANIFEST.json"), "w"), indent=1)
print("claimed", [c["property_id"] for c in checks], "na", [n["property_id"] for n in na])
