#!/bin/bash
# usage: tools/eval_seed.sh <patch.diff> <check ids...>  -- applies the patch to /repo, runs the checks, reverts
P=$1; shift
cd /repo && git status --short | grep -q . && { echo "/repo not clean"; exit 3; }
git -C /repo apply $P || exit 3
for c in "$@"; do
  OUT=$(cd /verif && timeout 1500 ./check $c --tier ${TIER:-quick} 2>&1); E=$?
  echo "check=$c exit=$E :: $(echo "$OUT" | grep -m2 "VIOLATION\|INCONCLUSIVE\|^OK" | cut -c1-260 | tr '\n' '|')"
done
git -C /repo checkout -- .
