#!/bin/bash
# usage: tools/eval_seed.sh <patch.diff> <check ids...>  -- applies the patch to /repo, runs the checks, reverts.
# The evidence files of the checks are saved and restored: committed evidence always describes the unchanged tree.
P=$1; shift
cd /repo && git status --short | grep -q . && { echo "/repo not clean"; exit 3; }
git -C /repo apply $P || exit 3
for c in "$@"; do
  cp /verif/evidence/$c.json /tmp/evidence_keep_$c.json 2>/dev/null
  OUT=$(cd /verif && timeout 1500 ./check $c --tier ${TIER:-quick} 2>&1); E=$?
  cp /tmp/evidence_keep_$c.json /verif/evidence/$c.json 2>/dev/null; rm -f /tmp/evidence_keep_$c.json
  echo "check=$c exit=$E :: $(echo "$OUT" | grep -m2 "VIOLATION\|INCONCLUSIVE\|^OK" | cut -c1-260 | tr '\n' '|')"
done
git -C /repo checkout -- .
