#!/bin/bash
# tools/run_all.sh [quick|thorough] : run every registered check, print one line each
T=${1:-quick}
cd /verif
for p in $(.venv/bin/python -c "import sys; sys.path.insert(0,'/verif'); from vf import props; print(' '.join(sorted(props.PROPS)))"); do
  S=$(date +%s); OUT=$(./check $p --tier $T 2>&1); E=$?; W=$(( $(date +%s) - S ))
  echo "$p exit=$E wall=${W}s :: $(echo "$OUT" | grep -m1 "^\[$p" | cut -c1-160) $(echo "$OUT" | grep -m2 "VIOLATION\|INCONCLUSIVE" | cut -c1-200 | tr '\n' '|')"
done
