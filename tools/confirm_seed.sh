#!/bin/bash
# usage: tools/confirm_seed.sh <srcdir with patch.diff demo.py meta.json> <seed id>
# confirms in a scratch worktree of /repo HEAD: patch applies, suite passes, demo fails with / passes without
SRC=$1; ID=$2
WT=/tmp/wt/confirm_$ID
git -C /repo worktree remove --force $WT >/dev/null 2>&1
git -C /repo worktree add --detach $WT HEAD -q || exit 3
cd $WT
R="{}"
PYTHONPATH=$WT timeout 300 /venv/bin/python $SRC/demo.py >/tmp/wt/demo_orig_$ID.log 2>&1; D0=$?
git apply $SRC/patch.diff || { echo "patch does not apply"; exit 3; }
PYTHONPATH=$WT timeout 300 /venv/bin/python $SRC/demo.py >/tmp/wt/demo_mut_$ID.log 2>&1; D1=$?
PYTHONPATH=$WT timeout 900 /venv/bin/python -m pytest -q -p no:cacheprovider --timeout=900 >/tmp/wt/tests_$ID.log 2>&1; T=$?
TAIL=$(tail -1 /tmp/wt/tests_$ID.log)
FAILED=$(grep "^FAILED" /tmp/wt/tests_$ID.log | tr '\n' ' ')
echo "seed=$ID demo_orig_exit=$D0 demo_mutant_exit=$D1 tests_exit=$T tests='$TAIL' failed='$FAILED'"
cd /; git -C /repo worktree remove --force $WT
