#!/usr/bin/env python3
"""tools/keep_seed.py <srcdir> <seed-id> <property> <caught_by> <note>: copy a confirmed seeded change into /verif/seeded/<seed-id>/"""
import json, os, shutil, sys, subprocess
src, sid, prop, caught, note = sys.argv[1:6]
dst = f"/verif/seeded/{sid}"
os.makedirs(dst, exist_ok=True)
for f in ("patch.diff", "demo.py"):
    shutil.copy(os.path.join(src, f), os.path.join(dst, f))
m = json.load(open(os.path.join(src, "meta.json"))) if os.path.exists(os.path.join(src, "meta.json")) else {}
head = subprocess.check_output(["git", "-C", "/repo", "log", "--format=%h", "-1"]).decode().strip()
meta = dict(property=prop, summary=m.get("summary"), needs_to_manifest=m.get("needs_to_manifest"), files_changed=m.get("files_changed"),
            origin="independent sub-agent given only the property text and a scratch worktree",
            confirmed=dict(repo_head=head, how="tools/confirm_seed.sh: fresh scratch worktree of /repo HEAD; demo.py exit 0 on the original, non-zero with patch.diff applied; "
                           "existing suite passes with the patch (only the baseline-flaky test_he_noisy_sphere_opt may fail)"),
            detection=dict(checks=caught.split(","), how="tools/eval_seed.sh: git -C /repo apply patch.diff; ./check <id> --tier quick; git -C /repo checkout -- .", result=note))
json.dump(meta, open(os.path.join(dst, "meta.json"), "w"), indent=1)
print("kept", dst)
