import sys, time, json; sys.path.insert(0,"/verif")
import symnp.explore as X
from vf.runner import make_harness
H=make_harness(sys.argv[1], json.loads(sys.argv[2]))
orig=X._models
def timed(eng, extra, timeout_ms=1500):
    t=time.time(); n=0
    for m in orig(eng, extra, timeout_ms):
        print("  model after %.2fs"%(time.time()-t), flush=True); n+=1
        yield m
    print("  _models done %.2fs n=%d"%(time.time()-t,n), flush=True)
X._models=timed
oc=X.concrete_run
def cr(case, model):
    t=time.time(); r=oc(case, model); print("  concrete_run %.2fs %s"%(time.time()-t, r["status"]), flush=True); return r
X.concrete_run=cr
t=time.time()
r=X.explore(H, max_paths=int(sys.argv[3]), xval=3)
print("total", time.time()-t, r["xval_ok"], len(r["xval_fail"]))
