"""print spurious / xval failures of a property run (dev)"""
import sys, json; sys.path.insert(0, "/verif")
from vf import props
from vf.runner import run_jobs
from vf.cli import load_known
pid = sys.argv[1]; tier = sys.argv[2] if len(sys.argv) > 2 else "quick"
P = props.PROPS[pid]
jobs = P["jobs"](tier)
if len(sys.argv) > 3:
    jobs = [j for j in jobs if sys.argv[3] in json.dumps(j)]
res, errs, to = run_jobs(jobs, known=load_known(pid), chunk=P.get("chunk", 250))
for e in errs: print("ERR", e["job"], e["error"][-1500:])
for k, r in res.items():
    for s in r["spurious"][:2]:
        print("SPUR", r["job"], s["label"], s.get("exc"), json.dumps(s.get("model_exact", s["model"]))[:600], json.dumps(s["replay"], default=str)[:300])
    for s in r["xval_fail"][:2]:
        print("XVAL", r["job"], json.dumps(s, default=str)[:1200])
    if r["abort_reasons"]: print("ABORT", r["job"], r["abort_reasons"])
    if r["exceptions"]: print("EXC", r["job"], r["exceptions"])
for k, r in res.items():
    if r["unknown"]: print("UNKNOWN", r["job"], r["unknown"], "paths", r["paths"], "solver_s", round(r["solver_s"],1))
slow = sorted(res.values(), key=lambda r: -r["solver_s"])[:6]
for r in slow: print("SLOW", r["job"], "paths", r["paths"], "solver_s", round(r["solver_s"],1), "wall", round(r.get("wall_s",0),1))
