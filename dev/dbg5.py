import sys, json; sys.path.insert(0,"/verif")
import symnp.explore as X
from vf.runner import make_harness
from vf.cli import load_known
orig=X._models
def fast(eng, extra, timeout_ms=1): return orig(eng, extra, 1)
X._models=fast
H=make_harness("h_bc:HBC", {"D": 2, "pat": {"x0": ["s", "s"], "lb": ["s", "s"], "ub": ["s", "s"], "plb": ["s", "s"], "pub": ["s", "s"]}, "spell": {}, "nonlinear": False})
known=[k for k in load_known("C08") if k["id"]=="F1"]
r=X.explore(H, xval=0, known=known, max_paths=400)
print(r["paths"], len(r["violations"]), len(r["spurious"]), len(r["known_hits"]))
for s in r["spurious"][:3]:
    print(json.dumps(s["model_exact"]), s["replay"]["tag"], s["tag"])
for s in r["violations"][:3]:
    print("V", json.dumps(s["model"]), s["replay"]["tag"], s["tag"])
