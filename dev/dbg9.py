import sys; sys.path.insert(0,"/verif")
import numpy as np, z3
from symnp import *
from symnp.arrays import npx
eng=Engine(); Engine.cur=eng
d=sym_array(eng,"d",(3,))
c = npx.sum(d <= 9.0)
print(type(c), getattr(c,'is_int',None), c)
m = npx.minimum(3, c); print(type(m), getattr(m,'is_int',None))
mm = npx.max([2, 3-100, m]); print(type(mm), getattr(mm,'is_int',None))
m2 = npx.minimum(mm, 2+1); print(type(m2), getattr(m2,'is_int',None))
