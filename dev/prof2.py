import sys, time, json, cProfile, pstats; sys.path.insert(0,"/verif")
from vf.runner import make_harness
from vf.cli import load_known
from symnp.explore import explore
H=make_harness(sys.argv[1], json.loads(sys.argv[2]))
known=load_known(sys.argv[4]) if len(sys.argv)>4 else ()
pr=cProfile.Profile(); pr.enable()
r=explore(H, max_paths=int(sys.argv[3]), xval=2, known=known)
pr.disable()
print(r["paths"], r["wall_s"], r["solver_s"])
pstats.Stats(pr).sort_stats("cumulative").print_stats(30)
