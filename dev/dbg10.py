import sys, json, traceback; sys.path.insert(0,"/verif")
from symnp import *
from symnp.explore import explore
from vf.runner import make_harness
H=make_harness(sys.argv[1], json.loads(sys.argv[2]))
r=explore(H, xval=0, stop_on_violation=True)
v=[x for x in r["violations"] if x["label"]=="no_unexpected_exception"][0]
eng=Engine(model=v["model"]); Engine.cur=eng
try:
    H.case(eng)
except BaseException as e:
    traceback.print_exc()
