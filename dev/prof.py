import sys, time, json, cProfile, pstats; sys.path.insert(0,"/verif")
from vf.runner import make_harness
from symnp.explore import explore
H=make_harness(sys.argv[1], json.loads(sys.argv[2]))
pr=cProfile.Profile(); pr.enable()
r=explore(H, max_paths=int(sys.argv[3]), xval=0)
pr.disable()
print(r["paths"], r["wall_s"], r["solver_s"])
pstats.Stats(pr).sort_stats("cumulative").print_stats(35)
