import sys, time, json; sys.path.insert(0,"/verif")
import z3
from symnp import *
import symnp.engine as E
from vf.runner import make_harness
H=make_harness("h_lb:HLB", {"D":1,"k0":-1,"sc0":0})
orig=E.Engine.check
def check(self,*extra):
    t=time.time(); r=orig(self,*extra); dt=time.time()-t
    if dt>1.0:
        s2=z3.Solver(); s2.add(self.solver.assertions()); s2.add(*extra)
        open("/tmp/slow.smt2","w").write(s2.to_smt2()); print("dumped", r, dt); raise SystemExit
    return r
E.Engine.check=check
from symnp.explore import explore
explore(H, max_paths=1, xval=0, timeout_ms=5000)
