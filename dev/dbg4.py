import sys, time, json; sys.path.insert(0,"/verif")
import traceback
from symnp import *
import symnp.engine as E
from vf.runner import make_harness
H=make_harness(sys.argv[1], json.loads(sys.argv[2]))
orig=E.Engine.check
def check(self,*extra):
    t=time.time(); r=orig(self,*extra); dt=time.time()-t
    if dt>1.0:
        print("SLOW", round(dt,2), r, [str(e)[:300] for e in extra]); 
        for f in traceback.extract_stack(limit=12)[:-1]:
            if "/repo/" in f.filename or "harness" in f.filename: print("   ", f.filename.split("/")[-1], f.lineno, f.line)
    return r
E.Engine.check=check
from symnp.explore import explore
work=[[]]; n=0
t0=time.time()
while work and n < int(sys.argv[3]):
    pre=work.pop()
    t=time.time()
    r=explore(H, roots=[pre], max_paths=1, xval=0, timeout_ms=5000)
    work.extend(r["leftover"]); n+=1
    print(n, "t=%.2f"%(time.time()-t), "q", r["queries"], "tags", list(r["tags"]), "ab", r["abort_reasons"], "viol", [v["label"] for v in r["violations"]], "sp", len(r["spurious"]), "left", len(work), flush=True)
print("total", time.time()-t0)
