import sys, time; sys.path.insert(0,"/verif")
import traceback
from symnp import *
from symnp.engine import PathAbort
from vf.harness.h_bc import HBC
H=HBC(D=1,pat={"x0":["s"],"lb":["s"],"ub":["s"],"plb":["s"],"pub":["s"]},nonlinear=False)
import symnp.engine as E
orig=E.Engine.check
def check(self,*extra):
    t=time.time(); r=orig(self,*extra); dt=time.time()-t
    if dt>0.5:
        print("SLOW", round(dt,2), r, [str(e)[:200] for e in extra]); traceback.print_stack(limit=6)
    return r
E.Engine.check=check
eng=Engine([], 5000); Engine.cur=eng
t=time.time()
try:
    out=H(eng); print(out.tag, len(out.obs))
except BaseException as e:
    traceback.print_exc()
print("time", time.time()-t, eng.n_queries, len(eng.trace))
