import z3, cvc5, time
x,y=z3.Reals("x y"); k=z3.Int("k")
s=z3.Solver(); s.add(x>0, y==x*2, z3.ToReal(k)<=x, z3.Not(y>0))
txt=s.to_smt2()
slv=cvc5.Solver(); slv.setOption("tlimit-per","5000"); slv.setLogic("ALL")
p=cvc5.InputParser(slv); p.setStringInput(cvc5.InputLanguage.SMT_LIB_2_6, txt, "q")
sm=p.getSymbolManager()
t=time.time(); res=None
while True:
    cmd=p.nextCommand()
    if cmd.isNull(): break
    out=cmd.invoke(slv, sm)
    if "sat" in str(out): res=str(out).strip()
print(res, time.time()-t)
