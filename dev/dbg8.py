import sys, json, traceback; sys.path.insert(0,"/verif")
from symnp import *
from vf.runner import make_harness
H=make_harness(sys.argv[1], json.loads(sys.argv[2]))
eng=Engine(json.loads(sys.argv[3]) if len(sys.argv)>3 else [], 5000); Engine.cur=eng
try:
    out=H.case(eng); print(out.tag)
except BaseException as e:
    traceback.print_exc()
