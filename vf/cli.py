"""./check <ID> [--tier quick|thorough] [--jobs N] | ./check <ID> --replay <file>

exit 0: every obligation unsat on every feasible path within the bounds, guards passed
exit 1: a replayed violation that is not a listed known finding (VIOLATION line printed)
exit 2: inconclusive (solver unknown, path cap, unsupported operation, spurious model, time limit)
"""
import argparse
import json
import os
import sys
import time

sys.path.insert(0, os.path.dirname(os.path.dirname(os.path.abspath(__file__))))

VERIF = os.path.dirname(os.path.dirname(os.path.abspath(__file__)))


def load_known(pid):
    path = os.path.join(VERIF, "known_findings.json")
    if not os.path.exists(path):
        return []
    with open(path) as f:
        data = json.load(f)
    return [k for k in data.get("findings", []) if k.get("property") == pid and k.get("status") == "known"]


def write_replay(pid, job, v):
    from symnp.explore import model_hash
    d = os.path.join(VERIF, "replays", pid)
    os.makedirs(d, exist_ok=True)
    h = model_hash(dict(m=v["model"], l=v["label"], j=job))
    path = os.path.join(d, h + ".json")
    with open(path, "w") as f:
        json.dump(dict(property=pid, harness=job["harness"], params=job["params"], label=v["label"], model=v["model"],
                       symbolic_tag=v.get("tag"), exception=v.get("exc"), replay_result=v.get("replay")), f, indent=1, default=str)
    return path


def do_replay(pid, path):
    from vf.runner import make_harness
    from symnp.explore import concrete_run
    with open(path) as f:
        rp = json.load(f)
    H = make_harness(rp["harness"], rp["params"])
    rep = concrete_run(H, rp["model"])
    label = rp["label"]
    if label == "no_unexpected_exception":
        bad = rep["status"] == "exception"
    else:
        bad = rep["status"] == "ok" and rep["verdicts"].get(label) is False
    print(json.dumps(dict(label=label, reproduced=bad, replay=rep), indent=1, default=str)[:4000])
    if bad:
        print(f"VIOLATION property={pid} replay={path}")
        return 1
    print("replay does not reproduce the violation on the current tree")
    return 0


def main(argv=None):
    ap = argparse.ArgumentParser()
    ap.add_argument("pid")
    ap.add_argument("--tier", default=os.environ.get("VERIF_TIER", "quick"))
    ap.add_argument("--jobs", type=int, default=int(os.environ.get("VERIF_JOBS", "0")) or None)
    ap.add_argument("--replay")
    ap.add_argument("--only", help="substring filter on harness spec (development)")
    ap.add_argument("--verbose", action="store_true")
    a = ap.parse_args(argv)
    pid = a.pid.upper()
    if a.replay:
        return do_replay(pid, a.replay)
    from vf import props
    from vf.runner import run_jobs
    seed = int(os.environ.get("VERIF_SEED", "0") or 0)
    P = props.PROPS[pid]
    t0 = time.time()
    jobs = P["jobs"](a.tier)
    if a.only:
        jobs = [j for j in jobs if a.only in json.dumps(j)]
    known = load_known(pid)
    limit = P.get("time_limit", {"quick": 600, "thorough": 3600})[a.tier]
    deadline = t0 + limit
    results, errors, timed_out = run_jobs(jobs, nproc=a.jobs, deadline=deadline, known=known,
                                          xval=P.get("xval", {"quick": 2, "thorough": 4})[a.tier],
                                          chunk=P.get("chunk", 250), timeout_ms=P.get("timeout_ms", 20000), seed=seed, labels=P.get("labels"),
                                          second_solver_every=(P.get("second_solver_every", 25) if a.tier == "thorough" else P.get("second_solver_every_quick", 200)))
    labels = P.get("labels")  # None = every label of the harnesses belongs to the property
    exc_is_violation = P.get("exc_is_violation", False)

    def mine(label):
        if label == "no_unexpected_exception":
            return exc_is_violation
        return labels is None or label in labels

    tot = dict(paths=0, feasible=0, infeasible=0, queries=0, solver_s=0.0, unknown=0, aborted=0, ob_queries=0, discharged=0,
               trivially_true=0, xval_ok=0, forks=0, second_solver_unsat=0, second_solver_sat=0, second_solver_unknown=0, second_solver_error=0)
    reached, violations, known_hits, spurious, xfails, exc_paths, abort_reasons = {}, [], [], [], [], {}, {}
    functions, stubs, assumptions, samples, per_job = {}, set(), set(), [], []
    for k, r in results.items():
        for t in tot:
            tot[t] += r.get(t, 0)
        for l, d in r["labels"].items():
            if mine(l):
                x = reached.setdefault(l, dict(reached=0, discharged=0, violated=0))
                for kk in x:
                    x[kk] += d[kk]
        for v in r["violations"]:
            if mine(v["label"]):
                violations.append((r["job"], v))
        for v in r["known_hits"]:
            if mine(v["label"]):
                known_hits.append((r["job"], v))
        for v in r["spurious"]:
            if mine(v["label"]):
                spurious.append((r["job"], v))
        xfails.extend((r["job"], x) for x in r["xval_fail"])
        for e, n in r["exceptions"].items():
            exc_paths[e] = exc_paths.get(e, 0) + n
        for e, n in r["abort_reasons"].items():
            abort_reasons[e] = abort_reasons.get(e, 0) + n
        for f in r.get("functions", []):
            functions[f["name"]] = f
        stubs.update(r.get("stubs", []))
        assumptions.update(r.get("assumptions", []))
        for s in r["samples"]:
            if len(samples) < 6:
                samples.append(dict(job=r["job"], **s))
        per_job.append(dict(job=r["job"], paths=r["paths"], feasible=r["feasible"], queries=r["queries"],
                            solver_s=round(r["solver_s"], 3), wall_s=round(r.get("wall_s", 0.0), 2), tags=len(r["tags"])))
    inconclusive = []
    if errors:
        inconclusive.append(f"{len(errors)} job(s) crashed: {errors[0]['error'][-400:]} [job {errors[0]['job']['harness']} {json.dumps(errors[0]['job']['params'])[:300]}]")
    if timed_out:
        inconclusive.append(f"time limit {limit}s hit before the path set was exhausted")
    if tot["unknown"]:
        inconclusive.append(f"{tot['unknown']} solver 'unknown' answers")
    if tot["aborted"]:
        inconclusive.append(f"{tot['aborted']} aborted paths: {json.dumps(abort_reasons)[:600]}")
    if spurious:
        s0 = spurious[0][1]
        inconclusive.append(f"{len(spurious)} model(s) did not replay on the real code (first: {s0['label']} {json.dumps(s0['replay'], default=str)[:300]})")
    if tot["second_solver_sat"]:
        inconclusive.append(f"second solver (cvc5) found a model for {tot['second_solver_sat']} obligation queries that z3 reported unsat")
    for n_, (job_, x_) in enumerate(xfails[:5]):
        d_ = os.path.join(VERIF, "replays", pid)
        os.makedirs(d_, exist_ok=True)
        with open(os.path.join(d_, f"xval_mismatch_{n_}.json"), "w") as f_:
            json.dump(dict(job=job_, mismatch=x_), f_, indent=1, default=str)
    if xfails:
        inconclusive.append(f"{len(xfails)} path-model cross-validation mismatch(es) between the encoding and the real code: {json.dumps(xfails[0][1], default=str)[:500]}")
    if exc_paths and not exc_is_violation:
        inconclusive.append(f"paths ended in an undeclared exception (decided under C09): {json.dumps(exc_paths)[:400]}")
    missing = [l for l in P.get("required", []) if reached.get(l, {}).get("reached", 0) == 0]
    if missing and not a.only:
        inconclusive.append(f"obligation labels never reached (vacuity guard): {missing}")
    if tot["xval_ok"] == 0 and not violations and not known_hits:
        inconclusive.append("reachability/cross-validation twin: no path model replayed on the real code")
    # ---- report ---------------------------------------------------------------------------------
    seen = set()
    replay_paths = []
    for job, v in violations:
        key = (job["harness"], v["label"])
        path = write_replay(pid, job, v)
        replay_paths.append(path)
        if key in seen:
            continue
        seen.add(key)
        print(f"VIOLATION property={pid} replay={path}")
        print(f"  obligation={v['label']} harness={job['harness']} params={json.dumps(job['params'])}")
        print(f"  model={json.dumps(v['model'])[:700]}")
    kseen = set()
    for job, v in known_hits:
        kid = v.get("known")
        if kid in kseen:
            continue
        kseen.add(kid)
        kf = [k for k in known if k.get("id") == kid][0]
        print(f"KNOWN-FINDING: property={pid} {kf['obligation']} {kf['function']}: {kf['witness']}")
    for k in known:
        if k.get("id") not in kseen:
            print(f"note: listed known finding {k.get('id')} was not re-derived in this run")
    wall = time.time() - t0
    nontrivial = tot["feasible"]
    per_job.sort(key=lambda j: -j.get("wall_s", 0.0))
    ev = dict(
        property_id=pid, tier=a.tier, seed=seed, level=P.get("category", "model_checking"),
        coverage=dict(
            states=max(tot["feasible"], 0), transitions=tot["forks"] + tot["feasible"],
            traces_validated_against_impl=tot["xval_ok"] + len(violations) + len(known_hits),
            evaluations=tot["paths"], distinct_nontrivial=nontrivial,
            rule="one evaluation = one feasible symbolic path (a distinct sequence of branch decisions of the real code, each "
                 "decided by z3 under the path condition) of one harness job; non-trivial = the path is feasible and reached "
                 "the obligation stage; every obligation on it is a z3 query pathcond AND NOT ob",
            samples=samples, exhaustive=not inconclusive,
            obligations=tot["ob_queries"] + tot["trivially_true"], discharged=tot["discharged"] + tot["trivially_true"],
            technique="bounded symbolic execution of the real Python functions (symnp) with z3 deciding branches and obligations",
            functions_encoded=sorted(functions.values(), key=lambda f: f["name"]), bounds=P.get("bounds", {}).get(a.tier, P.get("bounds")),
            jobs=len(results), per_job=per_job[:60], paths=tot["paths"], feasible_paths=tot["feasible"], queries=tot["queries"],
            solver_s=round(tot["solver_s"], 2), unknown=tot["unknown"], aborted=tot["aborted"], abort_reasons=abort_reasons,
            reached_labels=reached, twin_and_xval_replays_ok=tot["xval_ok"],
            worker_restarts_after_abnormal_exit=sum(r.get("worker_restarts", 0) for r in results.values()),
            xval_paths_skipped=dict(tie_only_path=sum(r.get("xval_tie_skipped", 0) for r in results.values()),
                                    over_approximated_function=sum(r.get("xval_uf_skipped", 0) for r in results.values()),
                                    no_exactly_representable_model=sum(r.get("xval_skipped_no_float_safe_model", 0) for r in results.values())), spurious_models=len(spurious),
            known_findings_rederived=sorted(k for k in kseen if k),
            second_solver=dict(solver="cvc5 (python wheel)", sampled_unsat_queries_rechecked=tot["second_solver_unsat"] + tot["second_solver_sat"] + tot["second_solver_unknown"] + tot["second_solver_error"],
                               agree_unsat=tot["second_solver_unsat"], disagree_sat=tot["second_solver_sat"], no_answer_in_5s=tot["second_solver_unknown"], export_error=tot["second_solver_error"]), inconclusive=inconclusive, stubs=sorted(stubs),
            outside=P.get("outside", []), solver="z3 " + _z3v(),
        ),
        assumptions=sorted(assumptions) + list(P.get("assumptions", [])), wall_s=round(wall, 2), violations=len(seen))
    os.makedirs(os.path.join(VERIF, "evidence"), exist_ok=True)
    with open(os.path.join(VERIF, "evidence", pid + ".json"), "w") as f:
        json.dump(ev, f, indent=1, default=str)
    print(f"[{pid} {a.tier}] jobs={len(results)} paths={tot['paths']} feasible={tot['feasible']} queries={tot['queries']} "
          f"obligations={ev['coverage']['obligations']} discharged={ev['coverage']['discharged']} xval_ok={tot['xval_ok']} "
          f"solver_s={tot['solver_s']:.1f} wall={wall:.1f}s")
    if a.verbose:
        print(json.dumps(reached, indent=1))
    if seen:
        return 1
    if inconclusive:
        for m in inconclusive:
            print(f"INCONCLUSIVE property={pid} reason={m}")
        return 2
    print(f"OK property={pid}: all obligations hold on every feasible path within the stated bounds")
    return 0


def _z3v():
    import z3
    return z3.get_version_string()


if __name__ == "__main__":
    sys.exit(main())
