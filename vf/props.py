"""Property registry: which harness jobs decide which property, with which obligation labels and bounds."""
import itertools


def J(harness, **params):
    return dict(harness=harness, params=params)


# ------------------------------------------------------------------------------------------------ C12
def c12_jobs(tier):
    jobs = []
    Ds = (1, 2) if tier == "quick" else (1, 2, 3)
    ns = (0, 1, 2, 3) if tier == "quick" else (0, 1, 2, 3, 4)
    for D in Ds:
        for n in ns:
            for cache in sorted({max(n, 1), n + 1}):
                for level in (0, 1, 2):
                    for record in (True, False):
                        for tr in (False, True):
                            if tr and (D != Ds[-1]):
                                continue
                            jobs.append(J("h_fl:HFL", D=D, n_filled=n, cache=cache, level=level, op="call", record=record,
                                          kind="valid" if level == 2 else "py", transform=tr))
                for level in (0, 2):
                    jobs.append(J("h_fl:HFL", D=D, n_filled=n, cache=max(n, 1), level=level, op="add", record=True, kind="py"))
    return jobs


C12_LABELS = {"target_called_once", "func_count_plus_one", "add_leaves_func_count", "arrays_same_length", "norecord_no_row",
              "norecord_data_unchanged", "norecord_counts_only_matching_row", "norecord_returns_value", "append_only_if_new",
              "append_exact", "append_sd", "append_bookkeeping", "others_unchanged", "flags_unchanged", "returns_value",
              "merge_only_with_sd", "merge_no_new_row", "merge_into_own_record", "merge_precision_weighted_mean",
              "merge_combined_sd", "merge_count", "merge_returns_merged_value", "merge_others_unchanged", "valid_value_accepted",
              "target_gets_point", "target_gets_inverse_transformed_point"}

PROPS = {
    "C12": dict(
        jobs=c12_jobs, labels=C12_LABELS,
        required=["append_exact", "others_unchanged", "merge_into_own_record", "merge_precision_weighted_mean",
                  "merge_others_unchanged", "norecord_data_unchanged", "func_count_plus_one", "arrays_same_length"],
        bounds=dict(quick="D<=2, <=3 logged rows, cache in {n, n+1} (growth forced), noise levels 0/1/2, record/no-record, "
                          "call and add, with/without transformer stub",
                    thorough="D<=3, <=4 logged rows, otherwise as quick"),
        outside=["floating-point rounding of the merged mean (real arithmetic model)", "fun_eval_time bookkeeping values",
                 "histories are covered by one inductive step from an arbitrary valid log, not by enumeration"],
        time_limit=dict(quick=300, thorough=1800),
    ),
}
