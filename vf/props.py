"""Property registry: which harness jobs decide which property, with which obligation labels and bounds."""
import itertools


def J(harness, **params):
    return dict(harness=harness, params=params)


# ------------------------------------------------------------------------------------------------ C12
def c12_jobs(tier):
    jobs = []
    Ds = (1, 2) if tier == "quick" else (1, 2, 3)
    ns = (0, 1, 2, 3) if tier == "quick" else (0, 1, 2, 3, 4)
    for D in Ds:
        for n in ns:
            for cache in sorted({max(n, 1), n + 1}):
                for level in (0, 1, 2):
                    for record in (True, False):
                        for tr in (False, True):
                            if tr and (D != Ds[-1]):
                                continue
                            jobs.append(J("h_fl:HFL", D=D, n_filled=n, cache=cache, level=level, op="call", record=record,
                                          kind="valid" if level == 2 else "py", transform=tr))
                for level in (0, 2):
                    jobs.append(J("h_fl:HFL", D=D, n_filled=n, cache=max(n, 1), level=level, op="add", record=True, kind="py"))
    return jobs


C12_LABELS = {"target_called_once", "func_count_plus_one", "add_leaves_func_count", "arrays_same_length", "norecord_no_row",
              "norecord_data_unchanged", "norecord_counts_only_matching_row", "norecord_returns_value", "append_only_if_new",
              "append_exact", "append_sd", "append_bookkeeping", "others_unchanged", "flags_unchanged", "returns_value",
              "merge_only_with_sd", "merge_no_new_row", "merge_into_own_record", "merge_precision_weighted_mean",
              "merge_combined_sd", "merge_count", "merge_returns_merged_value", "merge_others_unchanged", "valid_value_accepted",
              "target_gets_point", "target_gets_inverse_transformed_point"}

PROPS = {
    "C12": dict(
        jobs=c12_jobs, labels=C12_LABELS,
        required=["append_exact", "others_unchanged", "merge_into_own_record", "merge_precision_weighted_mean",
                  "merge_others_unchanged", "norecord_data_unchanged", "func_count_plus_one", "arrays_same_length"],
        bounds=dict(quick="D<=2, <=3 logged rows, cache in {n, n+1} (growth forced), noise levels 0/1/2, record/no-record, "
                          "call and add, with/without transformer stub",
                    thorough="D<=3, <=4 logged rows, otherwise as quick"),
        outside=["floating-point rounding of the merged mean (real arithmetic model)", "fun_eval_time bookkeeping values",
                 "histories are covered by one inductive step from an arbitrary valid log, not by enumeration"],
        time_limit=dict(quick=300, thorough=1800),
    ),
}


# ------------------------------------------------------------------------------------------------ C08
KINDS = ("s", "-inf", "+inf", "nan")


def _pat(D, **kw):
    base = dict(x0=["s"] * D, lb=["s"] * D, ub=["s"] * D, plb=["s"] * D, pub=["s"] * D)
    base.update(kw)
    return base


def c08_jobs(tier):
    jobs = []
    seen = set()

    def add(D, pat, spell=None, **kw):
        key = repr((D, sorted(pat.items(), key=str), sorted((spell or {}).items()), sorted(kw.items())))
        if key in seen:
            return
        seen.add(key)
        jobs.append(J("h_bc:HBC", D=D, pat=pat, spell=spell or {}, nonlinear=False, **kw))
    # D = 1
    vecs = ("x0", "lb", "ub", "plb", "pub")
    if tier == "thorough":
        opts = [None] + [[k] for k in KINDS]
        for combo in itertools.product(opts, repeat=5):
            add(1, dict(zip(vecs, combo)))
    else:
        add(1, _pat(1))
        for v in vecs:                       # single deviations from all-finite
            for alt in (None, ["-inf"], ["+inf"], ["nan"]):
                add(1, _pat(1, **{v: alt}))
        for x0 in (["s"], None, ["nan"]):    # unbounded / half bounded / defaults
            add(1, _pat(1, x0=x0, lb=["-inf"], ub=["+inf"]))
            add(1, _pat(1, x0=x0, lb=None, ub=None))
            add(1, _pat(1, x0=x0, lb=["s"], ub=["+inf"]))
            add(1, _pat(1, x0=x0, lb=["-inf"], ub=["s"]))
            add(1, _pat(1, x0=x0, plb=None, pub=None))
            add(1, _pat(1, x0=x0, plb=None, pub=None, lb=None, ub=None))
            add(1, _pat(1, x0=x0, plb=None))
            add(1, _pat(1, x0=x0, pub=None, ub=["+inf"], lb=["-inf"]))
    # D = 2
    add(2, _pat(2))
    for k0 in (KINDS if tier == "thorough" else ("-inf",)):
        add(2, _pat(2, lb=["s", "-inf"], ub=["s", "+inf"]))
        add(2, _pat(2, lb=["-inf", "s"], ub=["+inf", "s"]))
        add(2, _pat(2, lb=["s", "-inf"], ub=["s", "s"]))
        add(2, _pat(2, lb=["-inf", "-inf"], ub=["+inf", "+inf"]))
        add(2, _pat(2, x0=None, lb=["s", "-inf"], ub=["s", "+inf"]))
    add(2, _pat(2, x0=None))
    add(2, _pat(2, x0=["s", "nan"]))
    add(2, _pat(2, plb=None, pub=None))
    if tier == "thorough":
        add(3, _pat(3))
        for v in vecs:
            for alt in KINDS[1:]:
                add(2, _pat(2, **{v: ["s", alt]}))
    # spellings of the same vectors
    for sp in ("scalar", "list", "tuple", "flat"):
        add(1, _pat(1), {v: sp for v in vecs})
        add(1, _pat(1, x0=None), {v: sp for v in vecs})
        add(1, _pat(1, plb=None, pub=None), {v: sp for v in vecs})
    for sp in ("list", "tuple", "flat"):
        add(2, _pat(2), {v: sp for v in vecs})
        add(2, _pat(2, x0=None), {v: sp for v in vecs})
    # mismatched dimensions: one vector has a different length (concrete shape fact)
    return jobs


C08_LABELS = {"target_never_called_by_constructor", "rejected_only_if_invalid", "accepted_only_if_valid", "normalised_shapes",
              "normalised_order", "x0_strictly_inside", "hard_bounds_kept"}

PROPS["C08"] = dict(
    jobs=c08_jobs, labels=C08_LABELS, exc_is_violation=True,
    required=["rejected_only_if_invalid", "accepted_only_if_valid", "normalised_order", "x0_strictly_inside",
              "target_never_called_by_constructor"],
    bounds=dict(quick="D=1: ~50 kind patterns over {finite-symbolic, -inf, +inf, NaN, absent} per vector; D=2: all-finite and "
                      "bounded/unbounded mixes; spellings scalar/list/tuple/(D,)/(1,D); inside a pattern every relative order "
                      "and tie of the finite values is covered by the solver",
                thorough="D=1: all 3125 kind patterns; D=2 additionally one special coordinate per vector; D=3 all-finite"),
    outside=["'numerically indistinguishable' bounds (a rounding notion; in real arithmetic it collapses to equality)",
             "magnitudes outside [2^-20, 2^20] (the code special-cases |bound| <= realmin)",
             "_init_optim_state_ is a stub here: the transformer's ordering check is H-VT's ctor_accepts_valid_bounds (C11), "
             "the mesh snapping of x0 is H-SB (C01)", "mismatched dimensions (a concrete shape test, nothing symbolic)"],
    time_limit=dict(quick=600, thorough=7200), chunk=120,
)
