"""Property registry: which harness jobs decide which property, with which obligation labels and bounds."""
import itertools


def J(harness, **params):
    return dict(harness=harness, params=params)


# ------------------------------------------------------------------------------------------------ C12
def c12_jobs(tier):
    jobs = []
    Ds = (1, 2) if tier == "quick" else (1, 2, 3)
    ns = (0, 1, 2, 3) if tier == "quick" else (0, 1, 2, 3, 4)
    for D in Ds:
        for n in ns:
            for cache in sorted({max(n, 1), n + 1}):
                for level in (0, 1, 2):
                    for record in (True, False):
                        for tr in (False, True):
                            if tr and (D != Ds[-1]):
                                continue
                            jobs.append(J("h_fl:HFL", D=D, n_filled=n, cache=cache, level=level, op="call", record=record,
                                          kind="valid" if level == 2 else "py", transform=tr))
                for level in (0, 2):
                    jobs.append(J("h_fl:HFL", D=D, n_filled=n, cache=max(n, 1), level=level, op="add", record=True, kind="py"))
    return jobs


C12_LABELS = {"target_called_once", "func_count_plus_one", "add_leaves_func_count", "arrays_same_length", "norecord_no_row",
              "norecord_data_unchanged", "norecord_counts_only_matching_row", "norecord_returns_value", "append_only_if_new",
              "append_exact", "append_sd", "append_bookkeeping", "others_unchanged", "flags_unchanged", "returns_value",
              "merge_only_with_sd", "merge_no_new_row", "merge_into_own_record", "merge_precision_weighted_mean",
              "merge_combined_sd", "merge_count", "merge_returns_merged_value", "merge_others_unchanged", "valid_value_accepted",
              "target_gets_point", "target_gets_inverse_transformed_point"}

PROPS = {
    "C12": dict(
        jobs=c12_jobs, labels=C12_LABELS,
        required=["append_exact", "others_unchanged", "merge_into_own_record", "merge_precision_weighted_mean",
                  "merge_others_unchanged", "norecord_data_unchanged", "func_count_plus_one", "arrays_same_length"],
        bounds=dict(quick="D<=2, <=3 logged rows, cache in {n, n+1} (growth forced), noise levels 0/1/2, record/no-record, "
                          "call and add, with/without transformer stub",
                    thorough="D<=3, <=4 logged rows, otherwise as quick"),
        outside=["floating-point rounding of the merged mean (real arithmetic model)", "fun_eval_time bookkeeping values",
                 "histories are covered by one inductive step from an arbitrary valid log, not by enumeration"],
        time_limit=dict(quick=300, thorough=1800),
    ),
}


# ------------------------------------------------------------------------------------------------ C08
KINDS = ("s", "-inf", "+inf", "nan")


def _pat(D, **kw):
    base = dict(x0=["s"] * D, lb=["s"] * D, ub=["s"] * D, plb=["s"] * D, pub=["s"] * D)
    base.update(kw)
    return base


def c08_jobs(tier):
    jobs = []
    seen = set()

    def add(D, pat, spell=None, **kw):
        key = repr((D, sorted(pat.items(), key=str), sorted((spell or {}).items()), sorted(kw.items())))
        if key in seen:
            return
        seen.add(key)
        jobs.append(J("h_bc:HBC", D=D, pat=pat, spell=spell or {}, nonlinear=False, **kw))
    # D = 1
    vecs = ("x0", "lb", "ub", "plb", "pub")
    if tier == "thorough":
        opts = [None] + [[k] for k in KINDS]
        for combo in itertools.product(opts, repeat=5):
            add(1, dict(zip(vecs, combo)))
    else:
        add(1, _pat(1))
        for v in vecs:                       # single deviations from all-finite
            for alt in (None, ["-inf"], ["+inf"], ["nan"]):
                add(1, _pat(1, **{v: alt}))
        for x0 in (["s"], None, ["nan"]):    # unbounded / half bounded / defaults
            add(1, _pat(1, x0=x0, lb=["-inf"], ub=["+inf"]))
            add(1, _pat(1, x0=x0, lb=None, ub=None))
            add(1, _pat(1, x0=x0, lb=["s"], ub=["+inf"]))
            add(1, _pat(1, x0=x0, lb=["-inf"], ub=["s"]))
            add(1, _pat(1, x0=x0, plb=None, pub=None))
            add(1, _pat(1, x0=x0, plb=None, pub=None, lb=None, ub=None))
            add(1, _pat(1, x0=x0, plb=None))
            add(1, _pat(1, x0=x0, pub=None, ub=["+inf"], lb=["-inf"]))
    # D = 2
    add(2, _pat(2))
    for k0 in (KINDS if tier == "thorough" else ("-inf",)):
        add(2, _pat(2, lb=["s", "-inf"], ub=["s", "+inf"]))
        add(2, _pat(2, lb=["-inf", "s"], ub=["+inf", "s"]))
        add(2, _pat(2, lb=["s", "-inf"], ub=["s", "s"]))
        add(2, _pat(2, lb=["-inf", "-inf"], ub=["+inf", "+inf"]))
        add(2, _pat(2, x0=None, lb=["s", "-inf"], ub=["s", "+inf"]))
    add(2, _pat(2, x0=None))
    add(2, _pat(2, x0=["s", "nan"]))
    add(2, _pat(2, plb=None, pub=None))
    if tier == "thorough":
        add(3, _pat(3))
        for v in vecs:
            for alt in KINDS[1:]:
                add(2, _pat(2, **{v: ["s", alt]}))
    # spellings of the same vectors
    for sp in ("scalar", "list", "tuple", "flat"):
        add(1, _pat(1), {v: sp for v in vecs})
        add(1, _pat(1, x0=None), {v: sp for v in vecs})
        add(1, _pat(1, plb=None, pub=None), {v: sp for v in vecs})
    for sp in ("list", "tuple", "flat"):
        add(2, _pat(2), {v: sp for v in vecs})
        add(2, _pat(2, x0=None), {v: sp for v in vecs})
    # mismatched dimensions: one vector has a different length (concrete shape fact)
    return jobs


C08_LABELS = {"target_never_called_by_constructor", "rejected_only_if_invalid", "accepted_only_if_valid", "normalised_shapes",
              "normalised_order", "x0_strictly_inside", "hard_bounds_kept"}

PROPS["C08"] = dict(
    jobs=c08_jobs, labels=C08_LABELS, exc_is_violation=True,
    required=["rejected_only_if_invalid", "accepted_only_if_valid", "normalised_order", "x0_strictly_inside",
              "target_never_called_by_constructor"],
    bounds=dict(quick="D=1: ~50 kind patterns over {finite-symbolic, -inf, +inf, NaN, absent} per vector; D=2: all-finite and "
                      "bounded/unbounded mixes; spellings scalar/list/tuple/(D,)/(1,D); inside a pattern every relative order "
                      "and tie of the finite values is covered by the solver",
                thorough="D=1: all 3125 kind patterns; D=2 additionally one special coordinate per vector; D=3 all-finite"),
    outside=["'numerically indistinguishable' bounds (a rounding notion; in real arithmetic it collapses to equality)",
             "magnitudes outside [2^-20, 2^20] (the code special-cases |bound| <= realmin)",
             "_init_optim_state_ is a stub here: the transformer's ordering check is H-VT's ctor_accepts_valid_bounds (C11), "
             "the mesh snapping of x0 is H-SB (C01)", "mismatched dimensions (a concrete shape test, nothing symbolic)"],
    time_limit=dict(quick=600, thorough=7200), chunk=120,
)


# ================================================================================================ shared job families
def ps_jobs(tier, levels=(0, 1, 2), cons=False, fault=False, D2=True):
    jobs = []
    k0s = (0, -1, -21) if tier == "quick" else (0, -1, -2, -5, -10, -19, -20, -21)
    for k0 in k0s:
        for cp in (False, True):
            for acc in (True, False):
                for lvl in levels:
                    for bl in ((10, 1) if tier == "quick" else (10, 2, 1, 0)):
                        if tier == "quick" and (bl == 1 and (lvl != 0 or not acc)):
                            continue
                        jobs.append(J("h_ps:HPS", D=1, k0=k0, complete_poll=cp, accelerate=acc, level=lvl, budget_left=bl,
                                      cons="bool" if cons else None, fault=fault, M=0))
    jobs.append(J("h_ps:HPS", D=1, k0=-1, complete_poll=True, accelerate=True, level=0, budget_left=10, cons="bool" if cons else None, fault=fault, M=1))
    jobs.append(J("h_ps:HPS", D=1, k0=-1, complete_poll=True, accelerate=True, level=0, budget_left=10, cons="bool" if cons else None, fault=fault, M=0, iter=2))
    if D2:
        if tier == "quick":
            jobs.append(J("h_ps:HPS", D=2, k0=-1, complete_poll=False, accelerate=True, level=0, budget_left=10, dirs="fixed", cc="box",
                          cons=None, fault=fault, M=0))
        else:
            for cp in (False, True):
                for lvl in levels:
                    jobs.append(J("h_ps:HPS", D=2, k0=-1, complete_poll=cp, accelerate=True, level=lvl, budget_left=10, dirs="real", cc="real",
                                  cons="bool" if cons else None, fault=fault, M=0))
            jobs.append(J("h_ps:HPS", D=2, k0=0, complete_poll=True, accelerate=False, level=0, budget_left=3, dirs="real", cc="real",
                          cons=None, fault=fault, M=1))
    return jobs


def ss_jobs(tier, levels=(0, 1, 2), cons=False, fault=False):
    jobs = []
    for D, M in (((1, 1), (2, 1), (1, 0)) if tier == "quick" else ((1, 0), (1, 1), (1, 2), (2, 0), (2, 1), (2, 2), (3, 1))):
        for lvl in levels:
            for k0 in ((-1,) if tier == "quick" else (0, -1, -4)):
                jobs.append(J("h_ss:HSS", D=D, M=M, k0=k0, level=lvl, cons="bool" if cons else None, fault=fault, sc0=1))
    return jobs


def lb_jobs(tier, fault=False):
    jobs = []
    for D in ((1, 2) if tier == "quick" else (1, 2, 3)):
        from vf.common import cached_options
        ntry = int(cached_options(D)["search_n_try"])
        for k0 in ((0, -1, -19, -20) if tier == "quick" else tuple(range(0, -23, -1))):
            for sc0 in range(0, ntry + 1):
                jobs.append(J("h_lb:HLB", D=D, k0=k0, sc0=sc0, level=0, fault=fault))
        jobs.append(J("h_lb:HLB", D=D, k0=-1, sc0=0, level=0, fault=fault, enough_points=False))
        jobs.append(J("h_lb:HLB", D=D, k0=-3, sc0=ntry, level=0, fault=fault, ssi_stale=True))
    return jobs


def cc_jobs(tier, cons_modes=(None, "bool", "real")):
    jobs = []
    shapes = ((2, 1, 1), (2, 2, 1), (3, 1, 2), (1, 2, 0), (2, 2, 0)) if tier == "quick" else \
        ((1, 1, 1), (2, 1, 1), (2, 2, 1), (3, 1, 2), (2, 2, 2), (3, 2, 1), (3, 1, 1), (1, 3, 1), (2, 3, 1))
    for (N, D, M) in shapes:
        for proj in (True, False):
            for cons in cons_modes:
                if cons and (N, D, M) not in ((2, 1, 1), (2, 2, 1), (2, 2, 0)):
                    continue
                jobs.append(J("h_cc:HCC", N=N, D=D, M=M, proj=proj, cons=cons, k=-3 if (tier == "quick" or N * D > 3) else -19))
    jobs.append(J("h_cc:HCC", N=2, D=2, M=1, proj=True, cons=None, k=-3, inf=[1]))
    jobs.append(J("h_cc:HCC", N=2, D=1, M=1, proj=True, cons=None, k=-19))
    return jobs


def vt_jobs(tier):
    jobs = [J("h_vt:HVT", D=1, nonlinear=False), J("h_vt:HVT", D=2, nonlinear=False), J("h_vt:HVT", D=1, nonlinear=True),
            J("h_vt:HVT", D=1, nonlinear=True, kinds=["inf"]), J("h_vt:HVT", D=2, nonlinear=False, kinds=["inf", "fin"]),
            J("h_vt:HVT", D=2, nonlinear=False, kinds=[["conc", 1e-3, 1e-2, 1.0, 10.0], "fin"])]
    conc = [[1e-3, 1e-2, 1.0, 10.0], [1e-12, 1e-12, 1e-11, 1e12], [1.0, 1.0, 10.0, 10.0], [0.5, 1.0, 9.99, 20.0], [1e3, 1e4, 1e12, 1e12]]
    for c in conc:
        # point obligations only for moderate scales: with |bound| ~ 1e12 the float-evaluated anchors of log/exp are
        # too coarse for the 1e-9 * width tolerance to be decided on the over-approximation
        jobs.append(J("h_vt:HVT", D=1, nonlinear=True, kinds=[["conc"] + c], points=c[3] < 1e9))
    if tier == "thorough":
        jobs.append(J("h_vt:HVT", D=3, nonlinear=False))
        jobs.append(J("h_vt:HVT", D=2, nonlinear=True, kinds=["fin", "inf"]))
        for c in conc[:3]:
            jobs.append(J("h_vt:HVT", D=2, nonlinear=True, kinds=[["conc"] + c, "fin"]))
    return jobs


def pm_jobs(tier):
    jobs = []
    for D in (1, 2, 3):
        for ratio in (1, 2, 4):
            jobs.append(J("h_pm:HPM", D=D, ratio=ratio, scale="one"))
            if D <= 2 or tier == "thorough":
                jobs.append(J("h_pm:HPM", D=D, ratio=ratio, scale="sym"))
    return jobs


def fl_kind_jobs(tier):
    from vf.harness.h_fl import INVALID_KINDS, HE_INVALID
    jobs = []
    for D in ((1, 2) if tier == "thorough" else (2,)):
        for n in (0, 2):
            for level in (0, 1, 2):
                kinds = ["raise", "py", "arr1"] + list(INVALID_KINDS) if level < 2 else ["raise", "valid"] + list(INVALID_KINDS) + list(HE_INVALID)
                for kind in kinds:
                    for record in (True, False):
                        if not record and n == 0:
                            continue
                        jobs.append(J("h_fl:HFL", D=D, n_filled=n, cache=max(n, 1), level=level, op="call", record=record, kind=kind, transform=False))
    return jobs


# ================================================================================================ properties
PS_C13 = {"mesh_exponent_transition", "mesh_size_is_power_of_two", "mesh_at_most_cap", "search_mesh_not_above_poll_mesh"}
LB_C13 = {"mesh_exponent_changes_only_in_poll", "search_mesh_not_above_poll_mesh_at_loop_head", "mesh_size_consistent", "termination_message_true"}
PROPS["C13"] = dict(
    jobs=lambda tier: ps_jobs(tier) + lb_jobs(tier), labels=PS_C13 | LB_C13,
    required=sorted(PS_C13 | LB_C13),
    bounds=dict(quick="poll step: D=1 with the real direction generator and real candidate filter, mesh exponent k0 in {0,-1,-21}, complete_poll x accelerate_mesh x noise level {0,1,2} x remaining budget {10,1}; D=2 with fixed directions and a box-filter stub; loop body: D<=2, k0 in {0,-1,-19,-20}, every search_count",
                thorough="poll step: D=1 k0 in {0,-1,-2,-5,-10,-19,-20,-21}, budget {10,2,1,0}; D=2 with the real generator/filter (all sign and permutation outcomes); loop body D<=3, k0 in [0,-22]"),
    outside=["non-default search_mesh_expand / poll_mesh_multiplier", "stobads mode", "floating point: mesh sizes are exact powers of two in both models"],
    time_limit=dict(quick=600, thorough=5400))

PS_C14 = {"poll_point_on_frame", "poll_points_pairwise_distinct", "poll_at_most_2D_evaluations", "directions_generated_once"}
PM_C14 = {"two_D_directions", "second_half_is_negated_first_half", "entries_are_integers", "entries_bounded_by_mesh_ratio", "basis_is_nonsingular",
          "signed_coordinate_directions_when_ratio_one"}
PROPS["C14"] = dict(
    jobs=lambda tier: pm_jobs(tier) + ps_jobs(tier, levels=(0,)), labels=PS_C14 | PM_C14, required=sorted(PS_C14 | PM_C14),
    bounds=dict(quick="direction generator: D<=3, mesh ratio in {1,2,4}, entries symbolic integers (every value), every permutation, symbolic positive poll scale for D<=2; poll step as C13 (deterministic mode)",
                thorough="as quick plus symbolic poll scale for D=3 and the D=2 poll step with the real generator"),
    outside=["'up to rounding': exact in real arithmetic", "gp poll_scale other than 1 inside the poll step (the generator harness covers symbolic scales)"],
    time_limit=dict(quick=600, thorough=5400))

C03_LB = {"budget_never_exceeded", "iteration_bound", "termination_message_names_a_condition", "termination_message_true",
          "optim_state_message_recorded", "not_finished_means_no_condition_holds", "ranking_function_decreases", "ranking_function_bounded",
          "loop_invariant_preserved"}
C03_PS = {"poll_at_most_2D_evaluations", "poll_calls_only_below_budget", "poll_func_count_consistent"}
C03_SS = {"search_at_most_one_evaluation", "search_count_incremented_once", "search_success_only_with_evaluation"}
C03_FL = {"func_count_plus_one", "failure_leaves_count", "target_called_once"}
PROPS["C03"] = dict(
    jobs=lambda tier: lb_jobs(tier) + ps_jobs(tier, levels=(0, 1)) + ss_jobs(tier, levels=(0, 1)) +
    [j for j in c12_jobs("quick") if j["params"]["op"] == "call" and j["params"]["D"] == 2 and j["params"]["n_filled"] in (0, 2)],
    labels=C03_LB | C03_PS | C03_SS | C03_FL, required=sorted(C03_LB | C03_PS | C03_SS | {"func_count_plus_one"}),
    bounds=dict(quick="loop body (one inductive step, symbolic budget / counters / iteration bound, ranking function): D<=2, k0 in {0,-1,-19,-20}, every search_count; poll and search steps as C13/C18; logger: D=2",
                thorough="loop body D<=3, k0 in [0,-22]; poll/search steps with deeper bounds"),
    outside=["output_fcn callbacks", "max_fun_evals == 1", "non-default improvement_quantile / search_mesh_expand", "the budget carve-out for final noisy samples and the tail (H-IM / H-TAIL jobs, when present)"],
    time_limit=dict(quick=600, thorough=5400))

C04_STEP = {"incumbent_value_is_minimum", "incumbent_is_evaluated_pair", "incumbent_moves_iff_strictly_better", "fval_equals_yval_fsd_zero",
            "u_best_tracks_u", "optim_state_tracks_incumbent"}
C04_LB = {"recorded_u_is_incumbent", "recorded_values_are_current", "recorded_value_never_above_previous_incumbent", "incumbent_u_is_u_best"}
PROPS["C04"] = dict(
    jobs=lambda tier: ps_jobs(tier, levels=(0,)) + ss_jobs(tier, levels=(0,)) + lb_jobs(tier), labels=C04_STEP | C04_LB,
    required=sorted(C04_STEP | C04_LB),
    bounds=dict(quick="deterministic mode; poll step D=1 (real generator/filter) and D=2 (fixed directions); search step D<=2 with <=1 logged row; loop-body record block D<=2",
                thorough="poll step D=2 with the real generator; search step D<=3, <=2 logged rows; loop body D<=3"),
    outside=["one-ulp ties (reals)", "non-default incumbent-update policy (stobads, sloppy_improvement off)"],
    time_limit=dict(quick=600, thorough=5400))

C17_LABELS = {"rows_inside_box", "rows_are_input_rows", "rows_pairwise_distinct", "not_already_evaluated", "returned_rows_feasible", "feasible_count",
              "oracle_called_once"}
PROPS["C17"] = dict(
    jobs=cc_jobs, labels=C17_LABELS, required=["rows_inside_box", "rows_are_input_rows", "rows_pairwise_distinct", "not_already_evaluated", "returned_rows_feasible"],
    bounds=dict(quick="candidate rows x D x logged rows in {(2,1,1),(2,2,1),(3,1,2),(1,2,0),(2,2,0)}, projection on/off, constraint oracle none/bool/real, tol_mesh 2^-3 (2^-19 for one D=1 job), one coordinate with an infinite box",
                thorough="up to 3 rows x D=2 with 1 logged row, 2x2 with 2 logged rows, D=3; tol_mesh 2^-19 where the rounding arithmetic stays tractable"),
    outside=["|coordinates| > 64", "full-run consequence 'a deterministic target is never evaluated twice' (follows from obligation not_already_evaluated, which is a listed known finding)"],
    time_limit=dict(quick=600, thorough=5400))

C11_LABELS = {"ctor_accepts_valid_bounds", "log_iff_positive_decade", "plausible_bounds_map_to_unit", "internal_box_contains_unit_box", "original_bounds_kept",
              "forward_output_in_internal_box", "inverse_output_in_original_box", "order_never_reversed", "round_trip_within_1e-9_of_width",
              "strictly_increasing_exact", "round_trip_exact"}
PROPS["C11"] = dict(
    jobs=vt_jobs, labels=C11_LABELS, required=sorted(C11_LABELS - {"ctor_accepts_valid_bounds"}),
    bounds=dict(quick="affine: D<=2 all four bound vectors and the points symbolic (also with an unbounded coordinate); log: D=1 symbolic bounds with log/exp axiomatised, and 5 concrete decade geometries (1e-12..1e12, exactly one decade, tight boxes); mixed log/affine D=2 with a concrete log coordinate and a symbolic affine one",
                thorough="affine D=3; symbolic log coordinate next to an unbounded one; mixed problems with the symbolic coordinate free to be log or affine"),
    outside=["the 1e-9 rounding-error clause (reals have no rounding error)", "|bounds| > 1e300 where exp overflows", "log/exp are increasing functions linked as inverses and agreeing with the floating-point values at concrete arguments (over-approximation)"],
    time_limit=dict(quick=600, thorough=5400))
