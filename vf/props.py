"""Property registry: which harness jobs decide which property, with which obligation labels and bounds."""
import itertools


def J(harness, **params):
    return dict(harness=harness, params=params)


# ------------------------------------------------------------------------------------------------ C12
def c12_jobs(tier):
    jobs = []
    Ds = (1, 2) if tier == "quick" else (1, 2, 3)
    ns = (0, 1, 2, 3) if tier == "quick" else (0, 1, 2, 3, 4)
    for D in Ds:
        for n in ns:
            for cache in sorted({max(n, 1), n + 1}):
                for level in (0, 1, 2):
                    for record in (True, False):
                        for tr in (False, True):
                            if tr and (D != Ds[-1]):
                                continue
                            jobs.append(J("h_fl:HFL", D=D, n_filled=n, cache=cache, level=level, op="call", record=record,
                                          kind="valid" if level == 2 else "py", transform=tr))
                for level in (0, 2):
                    jobs.append(J("h_fl:HFL", D=D, n_filled=n, cache=max(n, 1), level=level, op="add", record=True, kind="py"))
                if n in (1, 2):   # pre-evaluated additions under unspecified noise, with and without an SD
                    for add_sd in (False, True):
                        jobs.append(J("h_fl:HFL", D=D, n_filled=n, cache=max(n, 1), level=1, op="add", record=True, kind="py", add_sd=add_sd))
        # first record into exactly the state the real __init__ builds (array aliasing / wrong initial counters show here)
        for cache in (1, 2):
            for level in (0, 1, 2):
                for tr in (False, True):
                    jobs.append(J("h_fl:HFL", D=D, n_filled=0, cache=cache, level=level, op="call", record=True,
                                  kind="valid" if level == 2 else "py", transform=tr, fresh=True))
    return jobs


C12_LABELS = {"target_called_once", "func_count_plus_one", "add_leaves_func_count", "arrays_same_length", "norecord_no_row",
              "norecord_data_unchanged", "norecord_counts_only_matching_row", "norecord_returns_value", "append_only_if_new",
              "append_exact", "append_sd", "append_bookkeeping", "others_unchanged", "flags_unchanged", "returns_value", "unused_rows_stay_blank",
              "merge_only_with_sd", "merge_no_new_row", "merge_into_own_record", "merge_precision_weighted_mean",
              "merge_combined_sd", "merge_count", "merge_returns_merged_value", "merge_others_unchanged", "valid_value_accepted",
              "target_gets_point", "target_gets_inverse_transformed_point", "returned_sd_is_reported_sd"}

PROPS = {
    "C12": dict(
        jobs=c12_jobs, labels=C12_LABELS,
        required=["append_exact", "others_unchanged", "merge_into_own_record", "merge_precision_weighted_mean",
                  "merge_others_unchanged", "norecord_data_unchanged", "func_count_plus_one", "arrays_same_length"],
        bounds=dict(quick="D<=2, <=3 logged rows, cache in {n, n+1} (growth forced), noise levels 0/1/2, record/no-record, "
                          "call and add, with/without transformer stub; first record into exactly the state the real __init__ builds (cache 1 and 2)",
                    thorough="D<=3, <=4 logged rows, otherwise as quick"),
        outside=["floating-point rounding of the merged mean (real arithmetic model)", "fun_eval_time bookkeeping values",
                 "histories are covered by one inductive step from an arbitrary valid log, not by enumeration"],
        time_limit=dict(quick=300, thorough=1800),
    ),
}


# ------------------------------------------------------------------------------------------------ C08
KINDS = ("s", "-inf", "+inf", "nan")


def _pat(D, **kw):
    base = dict(x0=["s"] * D, lb=["s"] * D, ub=["s"] * D, plb=["s"] * D, pub=["s"] * D)
    base.update(kw)
    return base


def c08_jobs(tier):
    jobs = []
    seen = set()

    def add(D, pat, spell=None, **kw):
        key = repr((D, sorted(pat.items(), key=str), sorted((spell or {}).items()), sorted(kw.items())))
        if key in seen:
            return
        seen.add(key)
        jobs.append(J("h_bc:HBC", D=D, pat=pat, spell=spell or {}, nonlinear=False, **kw))
    # D = 1
    vecs = ("x0", "lb", "ub", "plb", "pub")
    if tier == "thorough":
        opts = [None] + [[k] for k in KINDS]
        for combo in itertools.product(opts, repeat=5):
            add(1, dict(zip(vecs, combo)))
    else:
        add(1, _pat(1))
        for v in vecs:                       # single deviations from all-finite
            for alt in (None, ["-inf"], ["+inf"], ["nan"]):
                add(1, _pat(1, **{v: alt}))
        for x0 in (["-inf"], ["+inf"]):      # an infinite starting point in an unbounded problem
            add(1, _pat(1, x0=x0, lb=["-inf"], ub=["+inf"]))
            add(1, _pat(1, x0=x0, lb=None, ub=None))
        for x0 in (["s"], None, ["nan"]):    # unbounded / half bounded / defaults
            add(1, _pat(1, x0=x0, lb=["-inf"], ub=["+inf"]))
            add(1, _pat(1, x0=x0, lb=None, ub=None))
            add(1, _pat(1, x0=x0, lb=["s"], ub=["+inf"]))
            add(1, _pat(1, x0=x0, lb=["-inf"], ub=["s"]))
            add(1, _pat(1, x0=x0, plb=None, pub=None))
            add(1, _pat(1, x0=x0, plb=None, pub=None, lb=None, ub=None))
            add(1, _pat(1, x0=x0, plb=None))
            add(1, _pat(1, x0=x0, pub=None, ub=["+inf"], lb=["-inf"]))
    # D = 2
    add(2, _pat(2))
    for k0 in (KINDS if tier == "thorough" else ("-inf",)):
        add(2, _pat(2, lb=["s", "-inf"], ub=["s", "+inf"]))
        add(2, _pat(2, lb=["-inf", "s"], ub=["+inf", "s"]))
        add(2, _pat(2, lb=["s", "-inf"], ub=["s", "s"]))
        add(2, _pat(2, lb=["-inf", "-inf"], ub=["+inf", "+inf"]))
        add(2, _pat(2, x0=None, lb=["s", "-inf"], ub=["s", "+inf"]))
    # every per-coordinate combination of bounded / unbounded / bounded below only / bounded above only
    sides = (("s", "s"), ("-inf", "+inf"), ("s", "+inf"), ("-inf", "s"))
    for a in sides:
        for b in sides:
            add(2, _pat(2, lb=[a[0], b[0]], ub=[a[1], b[1]]))
            if a != b and "s" in a and "s" in b and a != ("s", "s") and b != ("s", "s"):
                add(2, _pat(2, x0=None, lb=[a[0], b[0]], ub=[a[1], b[1]]))
    add(2, _pat(2, x0=None))
    add(2, _pat(2, x0=["s", "nan"]))
    add(2, _pat(2, plb=None, pub=None))
    if tier == "thorough":
        add(3, _pat(3))
        for v in vecs:
            for alt in KINDS[1:]:
                add(2, _pat(2, **{v: ["s", alt]}))
    # spellings of the same vectors
    for sp in ("scalar", "list", "tuple", "flat"):
        add(1, _pat(1), {v: sp for v in vecs})
        add(1, _pat(1, x0=None), {v: sp for v in vecs})
        add(1, _pat(1, plb=None, pub=None), {v: sp for v in vecs})
    for sp in ("list", "tuple", "flat"):
        add(2, _pat(2), {v: sp for v in vecs})
        add(2, _pat(2, x0=None), {v: sp for v in vecs})
    # integer-typed spellings of valid problems (python ints, int lists/tuples, int64 arrays), with and without x0 / plausible bounds
    ip = lambda D, **kw: dict(dict(x0=None, lb=["int:-3"] * D, ub=["int:5"] * D, plb=["int:-1"] * D, pub=["int:2"] * D), **kw)
    for sp in ("row", "flat", "list", "tuple", "scalar"):
        for D in ((1,) if sp == "scalar" else (1, 2)):
            add(D, ip(D), {v: sp for v in vecs})
            add(D, ip(D, plb=None, pub=None), {v: sp for v in vecs})
            add(D, ip(D, x0=["int:0"] * D), {v: sp for v in vecs})
            add(D, ip(D, lb=None, ub=None), {v: sp for v in vecs})
    return jobs


C08_LABELS = {"target_never_called_by_constructor", "rejected_only_if_invalid", "accepted_only_if_valid", "normalised_shapes",
              "normalised_order", "x0_strictly_inside", "hard_bounds_kept",
              # integer spelling of the bound vectors: the transformer built from them is the one of the float spelling (H-VT)
              "plausible_bounds_map_to_unit", "internal_box_contains_unit_box", "log_iff_positive_decade", "ctor_accepts_valid_bounds"}

PROPS["C08"] = dict(
    jobs=lambda tier: c08_jobs(tier) + [j for j in vt_jobs("quick") if j["params"].get("dtype") == "int" or
                                        j["params"].get("kinds") in (["inf", "fin"], [["conc", 1e-3, 1e-2, 1.0, 10.0], ["conc", -float("inf"), -2.0, 3.0, float("inf")]])] +
    [J("h_vt:HVT", D=1, nonlinear=False, points=False), J("h_vt:HVT", D=1, nonlinear=True, points=False)],   # second ordering check accepts every normalised definition
    labels=C08_LABELS, exc_is_violation=True,
    required=["rejected_only_if_invalid", "accepted_only_if_valid", "normalised_order", "x0_strictly_inside",
              "target_never_called_by_constructor"],
    bounds=dict(quick="D=1: ~50 kind patterns over {finite-symbolic, -inf, +inf, NaN, absent} per vector; D=2: all-finite and "
                      "bounded/unbounded mixes; spellings scalar/list/tuple/(D,)/(1,D); inside a pattern every relative order "
                      "and tie of the finite values is covered by the solver",
                thorough="D=1: all 3125 kind patterns; D=2 additionally one special coordinate per vector; D=3 all-finite"),
    outside=["'numerically indistinguishable' bounds (a rounding notion; in real arithmetic it collapses to equality)",
             "magnitudes outside [2^-20, 2^20] (the code special-cases |bound| <= realmin)",
             "_init_optim_state_ is a stub here: the transformer's ordering check is H-VT's ctor_accepts_valid_bounds (C11), "
             "the mesh snapping of x0 is H-SB (C01)", "mismatched dimensions (a concrete shape test, nothing symbolic)"],
    time_limit=dict(quick=600, thorough=7200), chunk=120,
)


# ================================================================================================ shared job families
def ps_jobs(tier, levels=(0, 1, 2), cons=False, fault=False, D2=True):
    jobs = []
    k0s = (0, -1, -21) if tier == "quick" else (0, -1, -2, -5, -10, -19, -20, -21)
    for k0 in k0s:
        for cp in (False, True):
            for acc in (True, False):
                for lvl in levels:
                    for bl in ((10, 1) if tier == "quick" else (10, 2, 1, 0)):
                        if tier == "quick" and bl == 1 and (not acc or (lvl == 2) or (lvl == 1 and k0 != -1)):
                            continue
                        jobs.append(J("h_ps:HPS", D=1, k0=k0, complete_poll=cp, accelerate=acc, level=lvl, budget_left=bl,
                                      cons="bool" if cons else None, fault=fault, M=0))
    if 1 in levels:
        # auto-detected noise: the logger was built for a deterministic target (level0=0), optim_state's level is 1
        for k0 in k0s[:3]:
            for cp in (False, True):
                jobs.append(J("h_ps:HPS", D=1, k0=k0, complete_poll=cp, accelerate=True, level=1, level0=0, budget_left=10,
                              cons="bool" if cons else None, fault=fault, M=0))
    jobs.append(J("h_ps:HPS", D=1, k0=-1, complete_poll=True, accelerate=True, level=0, budget_left=10, cons="bool" if cons else None, fault=fault, M=1))
    jobs.append(J("h_ps:HPS", D=1, k0=-1, complete_poll=True, accelerate=True, level=0, budget_left=10, cons="bool" if cons else None, fault=fault, M=0, iter=2))
    if D2:
        if tier == "quick":
            jobs.append(J("h_ps:HPS", D=2, k0=-1, complete_poll=False, accelerate=True, level=0, budget_left=10, dirs="fixed", cc="box",
                          cons=None, fault=fault, M=0))
        else:
            for cp in (False, True):
                for lvl in levels:
                    jobs.append(J("h_ps:HPS", D=2, k0=-1, complete_poll=cp, accelerate=True, level=lvl, budget_left=10, dirs="real", cc="real",
                                  cons="bool" if cons else None, fault=fault, M=0))
            jobs.append(J("h_ps:HPS", D=2, k0=0, complete_poll=True, accelerate=False, level=0, budget_left=3, dirs="real", cc="real",
                          cons=None, fault=fault, M=1))
    return jobs


def ss_jobs(tier, levels=(0, 1, 2), cons=False, fault=False):
    jobs = []
    for D, M in (((1, 1), (2, 1), (1, 0)) if tier == "quick" else ((1, 0), (1, 1), (1, 2), (2, 0), (2, 1), (2, 2), (3, 1))):
        for lvl in levels:
            for k0 in ((-1,) if tier == "quick" else (0, -1, -4)):
                jobs.append(J("h_ss:HSS", D=D, M=M, k0=k0, level=lvl, cons="bool" if cons else None, fault=fault, sc0=1))
                if lvl == 1 and M == 1:
                    jobs.append(J("h_ss:HSS", D=D, M=M, k0=k0, level=1, level0=0, cons="bool" if cons else None, fault=fault, sc0=1))
    return jobs


def lb_jobs(tier, fault=False):
    jobs = []
    for D in ((1, 2) if tier == "quick" else (1, 2, 3)):
        from vf.common import cached_options
        ntry = int(cached_options(D)["search_n_try"])
        for k0 in ((0, -1, -19, -20) if tier == "quick" else tuple(range(0, -23, -1))):
            for sc0 in range(0, ntry + 1):
                jobs.append(J("h_lb:HLB", D=D, k0=k0, sc0=sc0, level=0, fault=fault))
        for k0 in (-3, -4, -5):   # user tol_mesh = 2^-4 exactly: the mesh equal to the tolerance must not stop the run
            jobs.append(J("h_lb:HLB", D=D, k0=k0, sc0=ntry, level=0, fault=fault, ktol=-4))
        jobs.append(J("h_lb:HLB", D=D, k0=-1, sc0=0, level=0, fault=fault, enough_points=False))
        jobs.append(J("h_lb:HLB", D=D, k0=-3, sc0=ntry, level=0, fault=fault, ssi_stale=True))
    return jobs


def cc_jobs(tier, cons_modes=(None, "bool", "real")):
    jobs = []
    shapes = ((2, 1, 1), (2, 2, 1), (3, 1, 2), (1, 2, 0), (2, 2, 0)) if tier == "quick" else \
        ((1, 1, 1), (2, 1, 1), (2, 2, 1), (3, 1, 2), (2, 2, 2), (3, 2, 1), (3, 1, 1), (1, 3, 1), (2, 3, 1))
    for (N, D, M) in shapes:
        for proj in (True, False):
            for cons in cons_modes:
                if cons and (N, D, M) not in ((2, 1, 1), (2, 2, 1), (2, 2, 0)):
                    continue
                jobs.append(J("h_cc:HCC", N=N, D=D, M=M, proj=proj, cons=cons, k=-3 if (tier == "quick" or N * D > 3) else -19))
    jobs.append(J("h_cc:HCC", N=2, D=2, M=1, proj=True, cons=None, k=-3, inf=[1]))
    # partly bounded problems: one coordinate unbounded / half-bounded next to a bounded one, both filter modes
    for proj in (True, False):
        jobs.append(J("h_cc:HCC", N=1, D=2, M=0, proj=proj, cons=None, k=-3, inf=[1]))
        jobs.append(J("h_cc:HCC", N=1, D=2, M=0, proj=proj, cons=None, k=-3, inf=[0, 1], inf_keep_lo=[0], inf_keep_hi=[1]))
        jobs.append(J("h_cc:HCC", N=2, D=1, M=0, proj=proj, cons=None, k=-3, inf=[0], inf_keep_lo=[0]))
    jobs.append(J("h_cc:HCC", N=1, D=2, M=0, proj=False, cons=None, k=-3, inf=[0, 1]))
    for proj in (True, False):     # one candidate written with +0.0 and with -0.0
        jobs.append(J("h_cc:HCC", N=2, D=1, M=0, proj=proj, cons=None, k=-3, zero_twin=True))
        jobs.append(J("h_cc:HCC", N=2, D=2, M=1, proj=proj, cons=None, k=-3, zero_twin=True))
    jobs.append(J("h_cc:HCC", N=2, D=1, M=1, proj=True, cons=None, k=-19))
    return jobs


def vt_jobs(tier):
    jobs = [J("h_vt:HVT", D=1, nonlinear=False), J("h_vt:HVT", D=2, nonlinear=False), J("h_vt:HVT", D=1, nonlinear=True),
            J("h_vt:HVT", D=1, nonlinear=True, kinds=["inf"]), J("h_vt:HVT", D=2, nonlinear=False, kinds=["inf", "fin"]),
            J("h_vt:HVT", D=2, nonlinear=False, kinds=[["conc", 1e-3, 1e-2, 1.0, 10.0], "fin"]),
            # mixed log / linear coordinates with an unbounded linear one (masking of the unused formula must not see inf)
            J("h_vt:HVT", D=2, nonlinear=True, kinds=[["conc", 1e-3, 1e-2, 1.0, 10.0], ["conc", -float("inf"), -2.0, 3.0, float("inf")]]),
            J("h_vt:HVT", D=2, nonlinear=True, kinds=[["conc", 1e-3, 1e-2, 1.0, float("inf")], ["conc", -5.0, -2.0, 3.0, 4.0]], points=False)]
    conc = [[1e-3, 1e-2, 1.0, 10.0], [1e-12, 1e-12, 1e-11, 1e12], [1.0, 1.0, 10.0, 10.0], [0.5, 1.0, 9.99, 20.0], [1e3, 1e4, 1e12, 1e12]]
    # integer-typed spellings of the same vectors define the same problem (log and affine coordinates)
    jobs.append(J("h_vt:HVT", D=1, nonlinear=True, kinds=[["conc", 1, 2, 50, 100]], dtype="int", points=False))
    jobs.append(J("h_vt:HVT", D=2, nonlinear=True, kinds=[["conc", 1, 2, 50, 100], ["conc", -5, -2, 3, 4]], dtype="int", points=False))
    for c in conc:
        # point obligations only for moderate scales: with |bound| ~ 1e12 the float-evaluated anchors of log/exp are
        # too coarse for the 1e-9 * width tolerance to be decided on the over-approximation
        jobs.append(J("h_vt:HVT", D=1, nonlinear=True, kinds=[["conc"] + c], points=c[3] < 1e9))
    if tier == "thorough":
        # (measured: affine D=3 fully symbolic does not finish in 400 s and a symbolic log-candidate next to an unbounded
        # coordinate ends with a solver 'unknown' -> both stay outside the claim)
        # (measured: the tight log box [1,1,10,10] next to a fully symbolic coordinate does not finish in 900 s -> outside)
        for c in conc[:2]:
            jobs.append(J("h_vt:HVT", D=2, nonlinear=True, kinds=[["conc"] + c, "fin"], points=c[3] < 1e9))
        jobs.append(J("h_vt:HVT", D=2, nonlinear=True, kinds=["inf", "inf"]))
        jobs.append(J("h_vt:HVT", D=3, nonlinear=False, kinds=["fin", "inf", ["conc", -2.0, -1.0, 1.0, 3.0]]))
    return jobs


def pm_jobs(tier):
    jobs = []
    for D in (1, 2, 3):
        for ratio in (1, 2, 4):
            jobs.append(J("h_pm:HPM", D=D, ratio=ratio, scale="one"))
            if D <= 2 or tier == "thorough":
                jobs.append(J("h_pm:HPM", D=D, ratio=ratio, scale="sym"))
    return jobs


def fl_kind_jobs(tier):
    from vf.harness.h_fl import INVALID_KINDS, HE_INVALID
    jobs = []
    for D in ((1, 2) if tier == "thorough" else (2,)):
        for n in (0, 2):
            for level in (0, 1, 2):
                kinds = ["raise", "raise_noargs", "py", "arr1"] + list(INVALID_KINDS) if level < 2 else ["raise", "raise_noargs", "valid"] + list(INVALID_KINDS) + list(HE_INVALID)
                for kind in kinds:
                    for record in (True, False):
                        if not record and n == 0:
                            continue
                        jobs.append(J("h_fl:HFL", D=D, n_filled=n, cache=max(n, 1), level=level, op="call", record=record, kind=kind, transform=False))
    return jobs


def im_jobs(tier, cons=False, fault=False):
    jobs = []
    for D in ((1,) if tier == "quick" else (1, 2)):
        for level0 in (0, 1, 2):
            for (B, nfs) in ((100, 10), (4, 10), (3, 2), (100, 0)):
                if tier == "quick" and (B, nfs) == (3, 2) and level0 == 0:
                    continue
                jobs.append(J("h_im:HIM", D=D, npts=2, level0=level0, B=B, nfs=nfs, cons="bool" if cons else None, fault=fault, seed=(B == 100 and nfs == 10)))
    for level0 in (0, 1, 2):     # budgets of one and two evaluations
        for B in (1, 2):
            jobs.append(J("h_im:HIM", D=1, npts=2, level0=level0, B=B, nfs=(0 if B == 1 else 1), cons="bool" if cons else None, fault=fault, seed=False))
    for level0 in (0, 1):
        jobs.append(J("h_im:HIM", D=1, npts=2, level0=level0, B=100, nfs=10, cons="bool" if cons else None, fault=fault, seed=False, noise_size=0.05))
    if tier == "thorough":
        jobs.append(J("h_im:HIM", D=1, npts=3, level0=0, B=100, nfs=10, cons="bool" if cons else None, fault=fault, seed=False))
    else:
        jobs.append(J("h_im:HIM", D=2, npts=2, level0=0, B=100, nfs=10, cons="bool" if cons else None, fault=fault, seed=False))
    return jobs


def tail_jobs(tier, fault=False):
    jobs = []
    for D in ((1, 2) if tier == "quick" else (1, 2, 3)):
        for level in (0, 1, 2):
            for it in ((0, 1, 2, 3) if (tier == "thorough" or D == 1) else (2,)):
                for nfs in ((0, 1, 2, 3) if (tier == "thorough" or D == 1) else (1, 2)):
                    if level == 0 and nfs not in (0, 2):
                        continue
                    jobs.append(J("h_tail:HTAIL", D=D, level=level, it=it, nfs=nfs, fault=fault, bounded=(D == 1)))
                    if nfs == 2 and it == 2:
                        jobs.append(J("h_tail:HTAIL", D=D, level=level, it=it, nfs=nfs, fault=fault, bounded=(D == 1), budget_hit=True))
                    if level == 1 and nfs in (1, 2) and it in (0, 2):
                        # noise auto-detected by the start-up test: the logger was constructed for a deterministic target
                        jobs.append(J("h_tail:HTAIL", D=D, level=1, level0=0, it=it, nfs=nfs, fault=fault, bounded=(D == 1)))
    return jobs


def sb_jobs(tier, cons=False):
    jobs = []
    ks = (0, -1, -10, -20) if tier == "quick" else tuple(range(0, -21, -2))
    for k in ks:
        jobs.append(J("h_sb:HSBounds", D=1, k=k))
        jobs.append(J("h_sb:HSBounds", D=2, k=k, inf=[1]))
    if tier == "thorough":
        jobs.append(J("h_sb:HSBounds", D=2, k=-10))
    names = ("affine", "tight", "unbounded", "log", "logtight", "offgrid", "offgrid2")
    # every documented way of selecting the noise mode (an option left out keeps its default None / False)
    for user in ({}, {"uncertainty_handling": True}, {"uncertainty_handling": False}, {"specify_target_noise": True},
                 {"specify_target_noise": True, "uncertainty_handling": True}, {"specify_target_noise": False, "uncertainty_handling": True}):
        jobs.append(J("h_sb:HSInit", D=1, geom=["affine"], cons="bool" if cons else None, nonlinear=True, user=user))
    for user in ({"poll_mesh_multiplier": 1.5}, {"poll_mesh_multiplier": 3.0}, {"tol_mesh": 2.0 ** -12}, {"tol_mesh": 3e-5}):   # other mesh ladders / tolerances
        jobs.append(J("h_sb:HSInit", D=1, geom=["affine"], cons="bool" if cons else None, nonlinear=True, user=user))
    for g in names:
        jobs.append(J("h_sb:HSInit", D=1, geom=[g], cons="bool" if cons else None, nonlinear=True))
    for pair in (("log", "unbounded"), ("offgrid2", "offgrid2"), ("tight", "logtight"), ("affine", "log")):
        jobs.append(J("h_sb:HSInit", D=2, geom=list(pair), cons="bool" if cons else None, nonlinear=True))
    jobs.append(J("h_sb:HSInit", D=2, geom=["log", "offgrid2"], cons="bool" if cons else None, nonlinear=False))
    return jobs


def nb_jobs(tier):
    jobs = []
    for noise in (False, True):
        jobs.append(J("h_nb:HNB", N=3, D=1, noise=noise))
        jobs.append(J("h_nb:HNB", N=2, D=2, noise=noise))
        jobs.append(J("h_nb:HNB", N=3, D=1, noise=noise, nmin=1, nmax=2, buf=0))
        if tier == "thorough":
            # (measured: 3 rows x D=2 with per-coordinate scales needs ~3 min per job on one core and a symbolic length
            # scale ends in solver unknowns; 4 rows in D=1 and 3 rows in D=2 with a scalar scale are the thorough bounds)
            jobs.append(J("h_nb:HNB", N=4, D=1, noise=noise))
            jobs.append(J("h_nb:HNB", N=3, D=2, noise=noise))
        jobs.append(J("h_nb:HFevals", N=3, D=2, noise=noise, nflag=2))
        jobs.append(J("h_nb:HFevals", N=3, D=1, noise=noise, nflag=3))
    jobs.append(J("h_nb:HNB", N=2, D=2, noise=True, ls=[0.5, 2.0]))
    for spec in (True, False):
        jobs.append(J("h_nb:HAddGP", N=2, D=2, specified=spec))
        jobs.append(J("h_nb:HAddGP", N=1, D=1, specified=spec))
    for D in (1, 2, 3):
        for t in ((1, 2, 7, 50) if tier == "quick" else tuple(range(1, 51))):
            jobs.append(J("h_nb:HAcq", n=2, D=D, t=t))
    jobs += trainopts_jobs(tier)
    return jobs


def trainopts_jobs(tier):
    jobs = [J("h_nb:HTrainOpts", D=D, rows=rows, iter=-1, second=False) for D in (1, 2) for rows in ((1, 3) if tier == "quick" else (1, 2, 3, 5))]
    # recording iterations convert the cubic schedule to an int: concrete budget offsets, evaluation counts <= 3
    for D in (1, 2):
        for off in ((0, 1, 50) if tier == "quick" else (0, 1, 2, 10, 50, 1000)):
            jobs.append(J("h_nb:HTrainOpts", D=D, rows=2, iter=2, second=(off == 1), B=off, ne_max=3))
    return jobs


# ================================================================================================ properties
PS_C13 = {"mesh_exponent_transition", "mesh_size_is_power_of_two", "mesh_at_most_cap", "search_mesh_not_above_poll_mesh"}
LB_C13 = {"mesh_exponent_changes_only_in_poll", "search_mesh_not_above_poll_mesh_at_loop_head", "mesh_size_consistent", "termination_message_true"}
PROPS["C13"] = dict(
    jobs=lambda tier: ps_jobs(tier) + lb_jobs(tier) + [J("h_lb:HLBNoisy", D=D, it=it, k0=-2) for D in (1, 2) for it in (1, 2, 3)], labels=PS_C13 | LB_C13,
    required=sorted(PS_C13 | LB_C13),
    bounds=dict(quick="poll step: D=1 with the real direction generator and real candidate filter, mesh exponent k0 in {0,-1,-21}, complete_poll x accelerate_mesh x noise level {0,1,2} x remaining budget {10,1}; D=2 with fixed directions and a box-filter stub; loop body: D<=2, k0 in {0,-1,-19,-20}, every search_count",
                thorough="poll step: D=1 k0 in {0,-1,-2,-5,-10,-19,-20,-21}, budget {10,2,1,0}; D=2 with the real generator/filter (all sign and permutation outcomes); loop body D<=3, k0 in [0,-22]"),
    outside=["non-default search_mesh_expand / poll_mesh_multiplier", "stobads mode", "floating point: mesh sizes are exact powers of two in both models"],
    time_limit=dict(quick=600, thorough=5400))

PS_C14 = {"poll_point_on_frame", "poll_points_pairwise_distinct", "poll_at_most_2D_evaluations"}
PM_C14 = {"two_D_directions", "second_half_is_negated_first_half", "entries_are_integers", "entries_bounded_by_mesh_ratio", "basis_is_nonsingular",
          "signed_coordinate_directions_when_ratio_one"}
PROPS["C14"] = dict(
    jobs=lambda tier: pm_jobs(tier) + ps_jobs(tier, levels=(0,)) +
    # option force_poll_mesh: candidates are re-snapped to the search mesh; from a search-mesh incumbent (pinned to concrete
    # search-mesh points off the poll mesh: a symbolic mesh multiple did not finish) they stay on the frame
    [J("h_ps:HPS", D=1, k0=k0, complete_poll=cp, accelerate=True, level=0, budget_left=10, cons=None, fault=False, M=0, extra_opts={"force_poll_mesh": True}, u_fixed=uf)
     for k0 in (0, -1, -3) for cp in (False, True) for uf in (0.3125, -81.0 / 1024)], labels=PS_C14 | PM_C14, required=sorted(PS_C14 | PM_C14),
    bounds=dict(quick="direction generator: D<=3, mesh ratio in {1,2,4}, entries symbolic integers (every value), every permutation, symbolic positive poll scale for D<=2; poll step as C13 (deterministic mode); option force_poll_mesh with the incumbent pinned to 2 concrete search-mesh points (mesh 2^0, 2^-1, 2^-3)",
                thorough="as quick plus symbolic poll scale for D=3 and the D=2 poll step with the real generator"),
    outside=["'up to rounding': exact in real arithmetic", "gp poll_scale other than 1 inside the poll step (the generator harness covers symbolic scales)"],
    time_limit=dict(quick=600, thorough=5400))

C03_LB = {"budget_never_exceeded", "iteration_bound", "termination_message_names_a_condition", "termination_message_true",
          "optim_state_message_recorded", "not_finished_means_no_condition_holds", "ranking_function_decreases", "ranking_function_bounded",
          "loop_invariant_preserved"}
C03_PS = {"poll_at_most_2D_evaluations", "poll_calls_only_below_budget", "poll_func_count_consistent"}
C03_SS = {"search_at_most_one_evaluation", "search_count_incremented_once", "search_success_only_with_evaluation"}
C03_FL = {"func_count_plus_one", "failure_leaves_count", "target_called_once"}
PROPS["C03"] = dict(
    jobs=lambda tier: lb_jobs(tier) + ps_jobs(tier, levels=(0, 1)) + ss_jobs(tier, levels=(0, 1)) + ss_jobs("quick", levels=(0,), cons=True) +
    [j for j in c12_jobs("quick") if j["params"]["op"] == "call" and j["params"]["D"] == 2 and j["params"]["n_filled"] in (0, 2)],
    labels=C03_LB | C03_PS | C03_SS | C03_FL, required=sorted(C03_LB | C03_PS | C03_SS | {"func_count_plus_one"}),
    bounds=dict(quick="loop body (one inductive step, symbolic budget / counters / iteration bound, ranking function): D<=2, k0 in {0,-1,-19,-20}, every search_count; poll and search steps as C13/C18; logger: D=2",
                thorough="loop body D<=3, k0 in [0,-22]; poll/search steps with deeper bounds"),
    outside=["output_fcn callbacks", "max_fun_evals == 1", "non-default improvement_quantile / search_mesh_expand", "the budget carve-out for final noisy samples and the tail (H-IM / H-TAIL jobs, when present)"],
    time_limit=dict(quick=600, thorough=5400))

C04_STEP = {"incumbent_value_is_minimum", "incumbent_is_evaluated_pair", "incumbent_moves_iff_strictly_better", "fval_equals_yval_fsd_zero",
            "u_best_tracks_u", "optim_state_tracks_incumbent"}
C04_LB = {"recorded_u_is_incumbent", "recorded_values_are_current", "recorded_value_never_above_previous_incumbent", "incumbent_u_is_u_best"}
PROPS["C04"] = dict(
    jobs=lambda tier: ps_jobs(tier, levels=(0,)) + ss_jobs(tier, levels=(0,)) + lb_jobs(tier), labels=C04_STEP | C04_LB,
    required=sorted(C04_STEP | C04_LB),
    bounds=dict(quick="deterministic mode; poll step D=1 (real generator/filter) and D=2 (fixed directions); search step D<=2 with <=1 logged row; loop-body record block D<=2",
                thorough="poll step D=2 with the real generator; search step D<=3, <=2 logged rows; loop body D<=3"),
    outside=["one-ulp ties (reals)", "non-default incumbent-update policy (stobads, sloppy_improvement off)"],
    time_limit=dict(quick=600, thorough=5400))

C17_LABELS = {"rows_inside_box", "rows_are_input_rows", "rows_pairwise_distinct", "not_already_evaluated", "returned_rows_feasible", "feasible_count",
              # the call sites: what the initial design / poll / search actually evaluate is the filtered set
              "design_points_pairwise_distinct", "design_point_in_search_box", "design_point_oracle_feasible",
              "poll_points_pairwise_distinct", "poll_point_in_hard_box", "poll_point_oracle_feasible",
              "evaluated_point_is_projected_gridded_candidate", "evaluated_point_oracle_feasible"}
PROPS["C17"] = dict(
    jobs=lambda tier: cc_jobs(tier) + [j for j in im_jobs(tier, cons=True) if j["params"]["nfs"] == 10] + [J("h_im:HIM", D=1, npts=3, level0=0, B=100, nfs=10, cons=None, fault=False, seed=False)] +
    ps_jobs("quick", levels=(0,), cons=True, D2=False)[::4] + ss_jobs("quick", levels=(0,), cons=True), labels=C17_LABELS, required=["rows_inside_box", "rows_are_input_rows", "rows_pairwise_distinct", "not_already_evaluated", "returned_rows_feasible"],
    bounds=dict(quick="candidate rows x D x logged rows in {(2,1,1),(2,2,1),(3,1,2),(1,2,0),(2,2,0)}, projection on/off, constraint oracle none/bool/real, tol_mesh 2^-3 (2^-19 for one D=1 job), one coordinate with an infinite box",
                thorough="up to 3 rows x D=2 with 1 logged row, 2x2 with 2 logged rows, D=3; tol_mesh 2^-19 where the rounding arithmetic stays tractable"),
    outside=["|coordinates| > 64", "full-run consequence 'a deterministic target is never evaluated twice' (follows from obligation not_already_evaluated, which is a listed known finding)"],
    time_limit=dict(quick=600, thorough=5400))

C11_LABELS = {"ctor_accepts_valid_bounds", "log_iff_positive_decade", "plausible_bounds_map_to_unit", "internal_box_contains_unit_box", "original_bounds_kept",
              "forward_output_in_internal_box", "inverse_output_in_original_box", "order_never_reversed", "round_trip_within_1e-9_of_width",
              "strictly_increasing_exact", "round_trip_exact"}
PROPS["C11"] = dict(
    jobs=vt_jobs, labels=C11_LABELS, required=sorted(C11_LABELS - {"ctor_accepts_valid_bounds"}),
    bounds=dict(quick="affine: D<=2 all four bound vectors and the points symbolic (also with an unbounded coordinate); log: D=1 symbolic bounds with log/exp axiomatised, and 5 concrete decade geometries (1e-12..1e12, exactly one decade, tight boxes); mixed log/affine D=2 with a concrete log coordinate and a symbolic affine one",
                thorough="mixed problems with a concrete log coordinate and a symbolic coordinate free to be log or affine (3 geometries); D=3 with one symbolic, one unbounded and one concrete coordinate; fully symbolic affine D=3 does not finish (stays outside)"),
    outside=["the 1e-9 rounding-error clause (reals have no rounding error)", "|bounds| > 1e300 where exp overflows", "log/exp are increasing functions linked as inverses and agreeing with the floating-point values at concrete arguments (over-approximation)"],
    time_limit=dict(quick=600, thorough=5400))

# ---- add the initial design / tail harnesses to C03 and C04 ----------------------------------------
C03_IM = {"func_count_is_number_of_target_calls", "reserve_is_min_of_setting_and_remaining", "budget_plus_reserve_is_original_budget",
          "reserve_non_negative_and_design_within_reduced_budget_or_exhausted", "design_at_most_npts"}
C03_TAIL = {"exactly_the_reserved_final_samples", "result_func_count_is_logger_count"}
_c03 = PROPS["C03"]
_c03_jobs0 = _c03["jobs"]
_c03["jobs"] = lambda tier: _c03_jobs0(tier) + im_jobs(tier) + tail_jobs(tier) + [j for j in sb_jobs("quick") if "HSInit" in j["harness"]]
_c03["labels"] = _c03["labels"] | C03_IM | C03_TAIL | {"tol_mesh_snapped_to_mesh_ladder"}
_c03["required"] = sorted(set(_c03["required"]) | {"exactly_the_reserved_final_samples", "budget_plus_reserve_is_original_budget"})

C04_IM = {"incumbent_value_is_minimum_of_log", "incumbent_is_logged_pair", "u_best_is_u", "fval_is_yval", "deterministic_fsd_zero"}
C04_TAIL = {"deterministic_result_is_last_iterate", "x_is_inverse_transform_of_final_u", "result_fval_fsd_are_final_state", "result_target_type"}
_c04 = PROPS["C04"]
_c04_jobs0 = _c04["jobs"]
_c04["jobs"] = lambda tier: _c04_jobs0(tier) + [j for j in im_jobs(tier) if j["params"]["level0"] == 0] + [j for j in tail_jobs(tier) if j["params"]["level"] == 0] + \
    [j for j in sb_jobs("quick") if "user" in j["params"]]      # which noise-mode options make the run deterministic (target_type clause)
_c04["labels"] = _c04["labels"] | C04_IM | C04_TAIL | {"noise_mode_follows_user_options"}
_c04["required"] = sorted(set(_c04["required"]) | {"incumbent_value_is_minimum_of_log", "deterministic_result_is_last_iterate"})

# ------------------------------------------------------------------------------------------------ C05
C05_IM = {"noise_test_made", "first_two_calls_at_start_point", "stochastic_iff_values_differ_more_than_tol_noise", "configured_noise_level_kept",
          "noise_test_not_logged", "fsd_is_logged_sd_of_incumbent", "fsd_is_noise_size"}
C05_TAIL = {"returned_point_is_recorded_iterate_with_lowest_quantile", "final_samples_at_returned_point_not_recorded",
            "yval_vec_is_fresh_sample_plus_earlier_observation", "yval_vec_is_the_fresh_samples", "fval_is_mean_of_yval_vec",
            "fsd_is_standard_error_of_yval_vec", "result_yval_vec_is_copy", "ysd_vec_holds_reported_sds",
            "ysd_vec_second_entry_is_sd_logged_at_returned_point", "no_final_samples_keeps_history_estimate", "exactly_the_reserved_final_samples",
            "history_re_evaluated_once", "result_target_type", "x_is_inverse_transform_of_final_u", "no_reselection_before_first_poll"}
PROPS["C05"] = dict(
    jobs=lambda tier: im_jobs(tier) + [j for j in tail_jobs(tier) if j["params"]["level"] > 0] +
    [j for j in c12_jobs(tier) if j["params"]["level"] == 2 and j["params"]["op"] == "call" and j["params"]["D"] == 1 and not j["params"]["transform"]],
    labels=C05_IM | C05_TAIL | {"returned_sd_is_reported_sd", "norecord_returns_value", "norecord_no_row"},
    required=sorted((C05_IM | C05_TAIL | {"returned_sd_is_reported_sd"}) - {"no_reselection_before_first_poll"}),
    bounds=dict(quick="noise test and initial design: D=1 (and one D=2 job), configured noise level 0/1/2, budgets {100,4,3}, noise_final_samples {10,2,0}; tail: D<=2, <=4 recorded iterates, noise_final_samples 0..3",
                thorough="D<=2 initial design, D<=3 tail, every (iterates, samples) pair up to 4 x 4"),
    outside=["the GP re-estimation of the recorded iterates (_re_evaluate_history_) is a stub", "statistical quality of the estimate"],
    time_limit=dict(quick=600, thorough=3600))

# ------------------------------------------------------------------------------------------------ C15
C15_LABELS = {"training_rows_sorted_by_distance", "training_pair_is_logged_pair", "training_noise_is_logged_sd_squared", "no_noise_column_without_noise",
              "nearest_first", "no_closer_row_left_out", "training_set_size_rule", "all_flagged_rows_used", "training_set_extended_by_one",
              "old_training_pairs_kept", "new_training_pair_is_the_observation", "posterior_updated", "acquisition_is_mean_minus_sqrt_beta_sd",
              "returned_gp_keeps_its_training_set", "training_set_is_logged_data", "training_set_is_current_neighbourhood",
              "gp_recentred_on_incumbent", "gp_updated_once_per_observation", "gp_updated_with_the_new_observation"}
PROPS["C15"] = dict(
    jobs=lambda tier: nb_jobs(tier) + [j for j in rf_jobs(tier) if "HInitRetry" not in j["harness"]] +
    [j for j in ps_jobs("quick", levels=(1, 2), D2=False) if j["params"]["k0"] == -1][:6] + ss_jobs("quick", levels=(0, 2)), labels=C15_LABELS, required=sorted(C15_LABELS),
    bounds=dict(quick="neighbour selection: <=3 logged rows, D<=2, scalar and concrete per-coordinate length scales, n_train_min/max in {(2,3),(1,2)}; posterior update: <=2 training rows; acquisition: D<=3, t in {1,2,7,50}",
                thorough="4 logged rows (D=1), 3 rows (D=2), t in 1..50, the thorough refit schedules of C16"),
    outside=["what gpyreg does with the training set", "periodic variables"],
    time_limit=dict(quick=600, thorough=3600))

# ------------------------------------------------------------------------------------------------ C10
C10_LABELS = {"target_called_once", "target_exception_propagates_same_type", "invalid_value_raises_ValueError", "failure_leaves_count",
              "failure_leaves_log", "valid_value_accepted", "func_count_plus_one", "fault_escapes_unchanged", "no_call_after_fault",
              "fault_escapes_loop_body", "func_count_counts_valid_calls_only"}
FAULT_KINDS = ("exc", "value", "linalg", "arith", "lookup", "runtime", "type", "os", "assertion", "attr", "index")


def with_fault_kinds(jobs, tier):
    """the class the target's exception derives from is a job parameter: rotated over the fault-injecting jobs of every
    harness family, and exhaustively for the first-call sites (initial design, logger)"""
    out, i = [], {}
    for j in jobs:
        p = j["params"]
        if not (p.get("fault") or p.get("kind") in ("raise", "raise_noargs")):
            out.append(j)
            continue
        h = j["harness"]
        full = (h == "h_im:HIM" and (p["B"], p["nfs"], p["D"]) == (100, 10, 1) and not p.get("noise_size")) or \
               (h == "h_fl:HFL" and p["n_filled"] == 0 and p["D"] == 2 and (tier == "thorough" or p["kind"] == "raise")) or \
               (tier == "thorough" and h in ("h_tail:HTAIL", "h_ss:HSS") and p["D"] == 1)
        if full:
            out.extend(J(h, **dict(p, fault_kind=k)) for k in FAULT_KINDS)
        else:
            k = i.get(h, 0)
            i[h] = k + 1
            out.append(J(h, **dict(p, fault_kind=FAULT_KINDS[k % len(FAULT_KINDS)])))
    return out


PROPS["C10"] = dict(
    jobs=lambda tier: with_fault_kinds(fl_kind_jobs(tier) + ps_jobs("quick", levels=(0, 2), fault=True, D2=False)[:: (1 if tier == "thorough" else 3)] +
    ss_jobs(tier, levels=(0, 2), fault=True) + [j for j in lb_jobs("quick", fault=True) if j["params"]["k0"] in (0, -1)] +
    im_jobs(tier, fault=True) + [j for j in tail_jobs(tier, fault=True) if j["params"]["level"] > 0 and j["params"]["it"] > 0 and j["params"]["nfs"] > 0], tier),
    labels=C10_LABELS, required=sorted(C10_LABELS - {"fault_escapes_loop_body", "valid_value_accepted"}),
    bounds=dict(quick="logger: every fault kind of the statement x noise level x record/no-record, D=2, 0 or 2 logged rows; fault position symbolic (a fork at every target call) in the initial design, poll step (D=1), search step (D<=2), loop body and final sampling; the base class of the raised exception is a job parameter over 11 builtin families (Exception, ValueError, LinAlgError, FloatingPointError, KeyError, RuntimeError, TypeError, OSError, AssertionError, AttributeError, IndexError), rotated over the fault-injecting jobs and exhaustive at the first-call sites",
                thorough="logger D in {1,2}; all poll-step configurations of C13 quick with fault injection"),
    outside=["a complex value with zero imaginary part", "target exceptions that are BaseException but not Exception (KeyboardInterrupt, SystemExit) and user classes with custom metaclasses/__init__ signatures", "whole runs: the position k of the faulty call is covered per unit by induction over the loop"],
    time_limit=dict(quick=600, thorough=3600))

# ------------------------------------------------------------------------------------------------ C01
C01_LABELS = {"forward_output_in_internal_box", "inverse_output_in_original_box", "internal_box_contains_unit_box",       # H-VT
              "target_gets_inverse_transformed_point", "target_gets_point", "append_exact",                                  # H-FL
              "rows_inside_box", "rows_are_input_rows",                                                                     # H-CC
              "search_bounds_inside_hard_box", "search_bounds_ordered", "search_bounds_on_mesh", "u0_in_internal_box",     # H-SB
              "constraint_argument_in_hard_box", "valid_definition_not_rejected_by_init", "internal_bounds_are_transformed_bounds",
              "constraint_argument_is_inverse_transform_of_u0", "state_u_is_u0",
              "poll_point_in_hard_box", "poll_point_on_frame",                                                               # H-PS
              "evaluated_point_in_search_box", "evaluated_point_in_hard_box", "evaluated_point_is_projected_gridded_candidate",  # H-SS
              "design_point_in_search_box", "first_call_at_start_point", "first_two_calls_at_start_point",                   # H-IM
              "x_is_inverse_transform_of_final_u", "final_samples_at_returned_point_not_recorded",                           # H-TAIL
              "x0_strictly_inside", "logger_uses_instance_transformer"}                                                      # H-BC
PROPS["C01"] = dict(
    jobs=lambda tier: vt_jobs(tier) + [j for j in c12_jobs("quick") if j["params"].get("transform") and j["params"]["record"]] +
    [j for j in cc_jobs(tier, cons_modes=(None,)) if tier == "thorough" or j["params"]["N"] * j["params"]["D"] <= 2 or j["params"]["M"] == 0] +
    sb_jobs(tier, cons=True) + ps_jobs("quick", levels=(0,), D2=(tier == "thorough"))[:: (1 if tier == "thorough" else 2)] + ss_jobs(tier, levels=(0,)) +
    [j for j in im_jobs(tier) if j["params"]["nfs"] == 10] + [j for j in tail_jobs("quick") if j["params"]["nfs"] in (0, 2)] +
    [J("h_bc:HBC", D=1, pat=_pat(1), spell={}, nonlinear=False, cons="bool"), J("h_bc:HBC", D=1, pat=_pat(1, x0=None), spell={}, nonlinear=False, cons="real")],
    labels=C01_LABELS, required=sorted(C01_LABELS - {"valid_definition_not_rejected_by_init", "target_gets_point"}),
    bounds=dict(quick="clamp lemma: as C11; logger: D=2 with transformer stub; filter: as C17; search bounds: D<=2, mesh 2^k k in {0,-1,-10,-20}, +-inf bounds; mesh-snapped x0: 7 concrete bound geometries (affine, tight, unbounded, log, off-grid) with symbolic x0; evaluation sites of poll/search/initial design/tail: D<=2",
                thorough="deeper bounds of the component harnesses"),
    outside=["floating-point rounding of ginv(g(x)) near a bound for symbolic bounds (real arithmetic); concrete-bound jobs use the floating-point constants of the transform",
             "periodic variables (unsupported by the code)", "the run-level statement follows by induction: every evaluated point is a filtered row or the incumbent (I_box), the logger hands inverse_transf(u) to the target, inverse_transf clamps"],
    time_limit=dict(quick=900, thorough=5400))

# ------------------------------------------------------------------------------------------------ C02
C02_LABELS = {"oracle_gets_inverse_transformed_rows", "returned_rows_feasible", "feasible_count",           # H-CC
              "poll_point_oracle_feasible", "evaluated_point_oracle_feasible", "design_point_oracle_feasible",                   # steps
              "strategy_receives_constraint_and_sum_rule", "candidates_oracle_feasible",                                        # H-HG / H-ES
              "x0_rejection_only_if_oracle_violated", "accepted_snapped_x0_feasible", "snapped_x0_feasibility_checked",          # H-SB
              "accepted_x0_feasible", "x0_feasibility_checked", "target_never_called_by_constructor", "constraint_argument_in_hard_box",
              "constraint_argument_is_inverse_transform_of_u0"}
PROPS["C02"] = dict(
    jobs=lambda tier: cc_jobs(tier, cons_modes=("bool", "real")) + [j for j in ps_jobs("quick", levels=(0,), cons=True, D2=False)][:: (1 if tier == "thorough" else 2)] +
    ss_jobs(tier, levels=(0,), cons=True) + [j for j in im_jobs(tier, cons=True) if j["params"]["nfs"] == 10] + [j for j in sb_jobs(tier, cons=True) if "HSInit" in j["harness"]] +
    [j for j in es_jobs(tier) if j["params"].get("cons") or "HHG" in j["harness"]] +
    [J("h_bc:HBC", D=1, pat=_pat(1), spell={}, nonlinear=False, cons="bool"), J("h_bc:HBC", D=1, pat=_pat(1), spell={}, nonlinear=False, cons="real"),
     J("h_bc:HBC", D=2, pat=_pat(2, x0=None), spell={}, nonlinear=False, cons="bool")],
    labels=C02_LABELS, required=sorted(C02_LABELS),
    bounds=dict(quick="constraint oracle = one fresh symbolic answer per queried row (subsumes every constraint geometry); filter as C17 with bool and real-valued oracles; evaluation sites of poll (D=1), search (D<=2), initial design; x0 checks in the constructor (D<=2) and after mesh snapping (7 geometries)",
                thorough="deeper bounds of the component harnesses"),
    outside=["the returned x is the incumbent or a recorded iterate, feasible by the invariant that incumbents are evaluated points (I_feas)", "ES-internal filtering (H-ES, C18)"],
    time_limit=dict(quick=900, thorough=5400))

# ------------------------------------------------------------------------------------------------ C19
C19_LB = {"noisy_incumbent_point_and_observation_belong_together", "noisy_incumbent_survives_next_iteration",
          "recorded_point_and_observation_belong_together", "record_all_fields", "record_at_current_iteration", "recorded_u_is_incumbent", "recorded_x_is_inverse_transform_of_u",
          "recorded_values_are_current", "no_record_between_searches", "incumbent_u_is_u_best", "recorded_value_never_above_previous_incumbent"}
C19_TAIL = {"result_func_count_is_logger_count", "result_message_and_seed", "result_target_type", "result_problem_type", "result_mesh_size",
            "x_is_inverse_transform_of_final_u", "result_holds_copies", "result_fval_fsd_are_final_state", "deterministic_result_is_last_iterate",
            "returned_point_is_recorded_iterate_with_lowest_quantile", "result_yval_vec_is_copy", "result_has_exactly_the_documented_fields"}
C19_CH = {"or_unknown_key_rejected", "or_known_key_by_item_and_attribute", "or_unknown_attribute_raises", "or_stored_value_is_a_copy",
          "ih_record_unknown_key_rejected", "ih_record_then_overwrite", "ih_negative_iteration_rejected", "ih_recorded_value_is_a_copy", "ih_setitem_column_is_a_deep_copy",
          "ih_update_operators_check_keys_and_copy", "or_update_rejects_unknown_keys", "or_setdefault_rejects_unknown_keys", "or_update_stores_copies",
          "ih_setitem_unknown_key_rejected", "witness_or", "witness_ih"}
PROPS["C19"] = dict(
    jobs=lambda tier: lb_jobs("quick" if tier == "quick" else "thorough") + tail_jobs(tier) +
    [J("h_lb:HLBNoisy", D=D, it=it, k0=-2) for D in ((1, 2) if tier == "quick" else (1, 2, 3)) for it in ((1, 2, 3) if tier == "quick" else (1, 2, 3, 4))] +
    [J("crosshair:ch_or", timeout_s=60 if tier == "quick" else 240), J("crosshair:ch_ih", timeout_s=90 if tier == "quick" else 300)],
    labels=C19_LB | C19_TAIL | C19_CH, required=sorted((C19_LB | C19_TAIL | C19_CH) - {"no_record_between_searches"}),
    bounds=dict(quick="record block of the loop body: D<=2 (symbolic counters); result construction: D<=2, <=4 recorded iterates, all noise levels; container clauses by CrossHair: symbolic str keys on OptimizeResult, symbolic indices (< 4) and values with enumerated keys on IterationHistory, per-condition timeout 60/90 s",
                thorough="loop body D<=3; tail D<=3; CrossHair timeouts 240/300 s"),
    outside=["arbitrary *string* keys on IterationHistory (the dict hash realises a symbolic string: CrossHair 'Not confirmed'), replaced by an enumerated list of unknown keys",
             "the GP re-estimation of the history inside the noisy swap block is a stub writing arbitrary values", "'recorded x was evaluated' follows from the incumbent invariant (I_inc) proved by the step harnesses"],
    time_limit=dict(quick=900, thorough=5400))

# ------------------------------------------------------------------------------------------------ C18
def es_jobs(tier, cons=(None, "bool")):
    jobs = []
    # (measured: mu = 3 multiplies the sort/unique orderings of two generations beyond an hour; mu <= 2 is the bound)
    for D, mu in (((1, 1), (1, 2), (2, 1)) if tier == "quick" else ((1, 1), (1, 2), (2, 1), (2, 2))):
        for c in cons:
            if tier == "quick" and D == 2 and c:
                continue
            jobs.append(J("h_es:HES", D=D, mu=mu, cons=c, M=0))
    jobs.append(J("h_es:HES", D=1, mu=(1 if tier == "quick" else 2), cons=None, M=1))
    for n in (2, 3):
        jobs.append(J("h_es:HHG", n=n, gamma="opt"))
        jobs.append(J("h_es:HHG", n=n, gamma="sym"))
    return jobs


C18_LABELS = {"empty_search_set_only_without_survivors", "returned_value_is_lowest_acquisition_of_survivors", "returned_point_is_candidate_with_that_value",
              "candidates_inside_mesh_rounded_box", "candidates_oracle_feasible",
              "probabilities_sum_to_one", "each_probability_at_least_exploration_floor_at_most_one", "chosen_index_valid_and_strategy_invoked",
              "strategy_receives_constraint_and_sum_rule",
              "search_at_most_one_evaluation", "evaluated_point_is_projected_gridded_candidate", "evaluated_point_in_search_box"}
PROPS["C18"] = dict(
    jobs=lambda tier: es_jobs(tier) + ss_jobs(tier, levels=(0, 1)), labels=C18_LABELS, required=sorted(C18_LABELS),
    bounds=dict(quick="ES search (ES-ell initialisation, real filter and gridding): mu=lambda in {1,2} for D=1, 1 for D=2, two generations, symbolic normal draws / acquisition values / constraint oracle; hedge: 2 and 3 strategies, symbolic scores, exploration floor concrete and symbolic in (0,1/n]; search step as C03",
                thorough="mu = lambda up to 2 for D <= 2, with one logged row"),
    outside=["the rank-selection mask for (mu,lambda) up to a few hundred (a concrete enumeration with nothing symbolic)", "ES-wcm's covariance initialisation (scipy eigh)",
             "probabilities summing to 1-eps in floating point"],
    time_limit=dict(quick=900, thorough=5400))

# ------------------------------------------------------------------------------------------------ C16
def rf_jobs(tier):
    jobs = []
    for noise in (False, True):
        for N, mf in (((10, 4), (12, 3)) if tier == "quick" else ((10, 4), (12, 3), (16, 6), (30, 9))):
            jobs.append(J("h_rf:HRobust", N=N, D=2, noise=noise, max_fail=mf))
        jobs.append(J("h_rf:HRobust", N=5, D=1, noise=noise, max_fail=2, symY=True))
        jobs.append(J("h_rf:HRobust", N=5, D=2, noise=noise, max_fail=3))      # the first local refit has few points
        jobs.append(J("h_rf:HRobust", N=12, D=2, noise=noise, max_fail=3, slice=True))   # option use_slice_sampler
        jobs.append(J("h_rf:HRobust", N=5, D=2, noise=noise, max_fail=3, slice=True))
        jobs.append(J("h_rf:HRobust", N=5, D=2, noise=noise, max_fail=2, slice=True, symhyp=True))
        jobs.append(J("h_rf:HRobust", N=12, D=2, noise=noise, max_fail=6, slice=True))
        jobs.append(J("h_rf:HRobust", N=5, D=1, noise=noise, max_fail=4, symY=True))
        if tier == "thorough":
            jobs.append(J("h_rf:HRobust", N=6, D=2, noise=noise, max_fail=2, symY=True))
        jobs.append(J("h_rf:HUpdate", noise=noise))
    jobs.append(J("h_rf:HInitRetry", max_fail=6))
    # the prior resampling used by every retry: each hyper-parameter's prior may be unset (None), Gaussian or of another family
    for kinds in (["gauss", "gauss", "gauss", "gauss"], ["gauss", "none", "gauss", "gauss"], ["none", "none", "none", "none"], ["gauss", "other", "none", "gauss"]):
        jobs.append(J("h_rf:HPriors", kinds=kinds))
    return jobs


C16_LABELS = {"linalg_failures_do_not_abort", "attempt_arguments_row_consistent", "attempt_rows_are_training_rows", "noise_column_kept_iff_noise",
              "retries_until_success", "success_flag_reports_failures", "exit_flag_reports_failed_update", "returned_gp_keeps_its_training_set", "failed_update_restores_previous_model",
              "training_set_is_logged_data", "training_set_is_current_neighbourhood", "resampled_vector_has_one_entry_per_hyperparameter", "hyperparameters_without_gaussian_prior_kept"}
PROPS["C16"] = dict(
    jobs=rf_jobs, labels=C16_LABELS, required=sorted(C16_LABELS), exc_is_violation=True,
    bounds=dict(quick="robust refit: every schedule of up to 4 consecutive LinAlgErrors (one fresh Bool per attempt), 10-12 concrete training rows with and without a noise column, and 5 rows with symbolic values (drop decisions symbolic) for 2 failures; initial-training retry loop (AST cut): up to 6 failures; posterior update fallback of local_gp_fitting; option use_slice_sampler with a sampler stub enforcing gpyreg's constructor checks, a symbolic noise hyper-parameter and symbolic noise bounds (2 failures) and 6 concrete failures; the GP stub enforces gpyreg's posterior contract (noise vector and training set of equal length, probed on the installed gpyreg) and a posterior computation may fail like a fit",
                thorough="up to 9 consecutive failures (30 rows), symbolic values for D=2"),
    outside=["ten failures in a row (res unbound)", "'all other guarantees continue to hold for that run' only in the assume/guarantee sense: every other harness stubs GP calls with arbitrary outputs",
             "numerical behaviour of gpyreg itself"],
    time_limit=dict(quick=600, thorough=3600))

# ------------------------------------------------------------------------------------------------ C20
def opt_jobs(tier):
    from vf.harness.h_opt import option_names
    jobs = []
    names = option_names()
    for nm in names:
        jobs.append(J("h_opt:HOPT", name=nm, D=2, D2=3))
        if tier == "thorough":
            jobs.append(J("h_opt:HOPT", name=nm, D=1, D2=2))
            jobs.append(J("h_opt:HOPT", name=nm, D=3, D2=1))
    for bad in ("tol_funn", "maxiter", "Display", ""):
        jobs.append(J("h_opt:HOPT", name=None, bad=bad, D=2))
    # the Options object of an earlier instance handed in as the options of a new one (same and different dimension)
    for nm in ("tol_fun", "max_fun_evals", "display") + (("tol_mesh", "random_seed") if tier == "thorough" else ()):
        for D, D2 in ((2, 3), (2, 2)):
            jobs.append(J("h_opt:HOPT", name=nm, D=D, D2=D2, caller="options"))
    # options a user supplies explicitly must survive the start of the run (noisy modes adjust several options)
    ux = {"tol_stall_iters": 7, "n_train_max": 60, "n_train_min": 11, "mesh_overflow_warning": 5, "min_failed_poll_steps": 3, "mesh_noise_multiplier": 0.3}
    for level0 in (0, 1, 2):
        jobs.append(J("h_im:HIM", D=1, npts=2, level0=level0, B=100, nfs=10, cons=None, fault=False, seed=False, user_extra=ux))
    for D in (1, 2):
        jobs.append(J("h_bc:HBC", D=D, pat=_pat(D), spell={}, nonlinear=False, seed="sym"))
        jobs.append(J("h_bc:HBC", D=D, pat=_pat(D, x0=None), spell={v: "flat" for v in ("lb", "ub", "plb", "pub")}, nonlinear=False))
    # the transformer and _init_optim_state_ receive the very arrays the caller handed in (np.atleast_2d views)
    jobs += [j for j in vt_jobs("quick") if j["params"].get("points", True) or True][:11]
    jobs += [j for j in sb_jobs("quick") if "HSInit" in j["harness"]]
    return jobs


C20_LABELS = {"user_value_takes_effect_exactly", "user_value_recorded_as_protected", "caller_dict_unchanged", "dependent_defaults_follow_user_value",
              "other_options_keep_documented_defaults", "later_instance_sees_its_own_defaults", "earlier_instance_unchanged_by_later_construction",
              "unknown_option_name_rejected", "caller_arrays_unchanged", "caller_options_unchanged", "constructor_leaves_argument_arrays_unchanged",
              "caller_bound_arrays_not_written", "defaults_independent_of_process_history", "user_instance_independent_of_process_history",
              "user_options_keep_their_values", "caller_options_object_unchanged", "instances_do_not_share_option_state"}
PROPS["C20"] = dict(
    jobs=opt_jobs, labels=C20_LABELS, required=sorted(C20_LABELS),
    bounds=dict(quick="every option name found in the two .ini files of the current tree, one symbolic override value each (non-zero real in [2^-20, 2^20]), dimensions (2, then a second instance with 3); 4 unknown names; constructor D<=2 for the caller-array clause",
                thorough="dimension pairs (1,2), (2,3), (3,1)"),
    outside=["subsets of several simultaneous overrides", "arbitrary unknown *string* names (set hashing realises a symbolic string)", "orders of constructing/running more than two instances",
             "running (optimize) between the constructions"],
    time_limit=dict(quick=600, thorough=3600))

# ------------------------------------------------------------------------------------------------ C07 (narrow)
C07_LABELS = {"seed_recorded", "seeded_before_first_draw", "reseeded_before_first_draw", "reseeded_before_first_target_call", "seeded_x0_draw_independent_of_prior_rng_state",
              "rng_used_only_when_x0_missing", "defaults_independent_of_process_history", "user_instance_independent_of_process_history",
              "sobol_seed_is_a_function_of_the_start_point", "no_process_dependent_source_in_seed", "no_global_rng_draw_for_a_finite_start_point", "recovery_draws_come_from_the_seeded_global_generator"}
PROPS["C07"] = dict(
    jobs=lambda tier: [J("h_bc:HBC", D=D, pat=_pat(D, x0=x0), spell={}, nonlinear=False, seed="sym", twice=True) for D in ((1, 2) if tier == "thorough" else (1,)) for x0 in (None, ["s"] * D, ["nan"] * D)] +
    [J("h_bc:HBC", D=2, pat=_pat(2, x0=None, lb=["-inf", "-inf"], ub=["+inf", "+inf"]), spell={}, nonlinear=False, seed="sym", twice=True)] +
    [j for j in im_jobs(tier) if j["params"].get("seed")] + pm_jobs("quick")[:4] + es_jobs("quick", cons=(None,))[:1] +
    [j for j in ps_jobs("quick", levels=(0,), D2=False)][:2] + [j for j in opt_jobs(tier) if j["harness"] == "h_opt:HOPT" and j["params"].get("name")] +
    [J("h_bc:HSobolSeed", D=D, scale=sc) for D in (1, 2, 3, 7, 8, 12) for sc in (1.0, 1e6)] +
    [j for j in rf_jobs("quick") if "HPriors" in j["harness"]],
    labels=C07_LABELS, required=sorted(C07_LABELS),
    bounds=dict(quick="seeding protocol: constructor with a symbolic seed in [0,2] (x0 given / absent / NaN, D<=2): the seed is installed before the first draw and recorded; 2-safety: the constructor executed twice from two different prior generator states (draws are variables named by (state, index)) yields the same starting point; _init_optimization_ re-seeds before its first draw; randomness discipline: in every harness the only randomness API available to pybads code is the stubbed global NumPy generator (any other API aborts the path and the check ends inconclusive)",
                thorough="same"),
    outside=["bit-for-bit equality of whole runs", "everything inside gpyreg / SciPy (GP training starts, Sobol sequence)", "thread / BLAS nondeterminism", "the seed arithmetic of init_sobol for symbolic starting points (string / uint64 manipulation; 12 concrete points are run)",
             "histories longer than two earlier instances; histories that run optimize() between the constructions"],
    level_text="Narrow claim: the seeding protocol and the randomness discipline of pybads' own Python are decided symbolically; reproducibility of whole runs is not claimed.",
    time_limit=dict(quick=600, thorough=1800))

# ------------------------------------------------------------------------------------------------ C09 (unit level)
def c09_jobs(tier):
    jobs = []
    q = tier == "quick"
    jobs += [j for j in c12_jobs("quick") if j["params"]["D"] == 2 and j["params"]["n_filled"] in (0, 2) and (not q or j["params"]["level"] == 2)]
    jobs += cc_jobs("quick")[:10:(3 if q else 1)] + vt_jobs("quick")[:6:(3 if q else 1)] + [j for j in sb_jobs("quick", cons=True) if "HSInit" in j["harness"]]
    jobs += ps_jobs("quick", cons=True, D2=False)[::(9 if q else 3)] + ss_jobs(tier, cons=True) + lb_jobs("quick")[::(9 if q else 4)]
    jobs += im_jobs(tier, cons=True) + tail_jobs(tier) + [j for j in es_jobs(tier) if not q or j["params"].get("cons") or "HHG" in j["harness"]] + rf_jobs("quick") + nb_jobs("quick")[:12:(3 if q else 1)]
    for n in (0, 1, 2, 3):
        for fc in (3, 30, 300):
            jobs.append(J("h_gs:HGS", D=2, n=n, fc=fc))
    for level in (0, 1):
        for pred in ("fin", "nan", "inf"):
            jobs.append(J("h_gs:HTarget", level=level, pred=pred))
    jobs += [J("h_bc:HBC", D=1, pat=_pat(1, x0=None), spell={v: sp for v in ("lb", "ub", "plb", "pub")}, nonlinear=False) for sp in ("list", "tuple", "scalar")]
    jobs += trainopts_jobs(tier)
    return jobs


C09_LABELS = {"returned_value_is_scalar", "target_values_support_item_as_callers_require", "refit_and_calibration_flags_are_booleans", "refit_resets_statistics",
              "linalg_failures_do_not_abort", "empty_search_set_only_without_survivors", "valid_definition_not_rejected_by_init",
              "training_restarts_at_least_final_value", "training_restarts_at_most_initial_value", "training_options_complete", "initial_design_size_recorded",
              "valid_value_accepted", "merge_into_own_record", "noise_mode_follows_user_options"}
PROPS["C09"] = dict(
    jobs=c09_jobs, labels=C09_LABELS, required=sorted(C09_LABELS - {"valid_definition_not_rejected_by_init", "valid_value_accepted"}), exc_is_violation=True,
    bounds=dict(quick="unit level: every harness of this framework is run in the modes of the statement (noise level 0/1/2, constraints on/off, affine/log) with the obligation 'no exception outside the declared set on any feasible path'; rare internal histories: empty search set, every ES candidate infeasible, merged observation under specified noise, non-finite GP prediction, 0..3 saved GP statistics, LinAlgError schedules, early stop of a noisy run",
                thorough="thorough tiers of the component harnesses"),
    outside=["'optimize() returns' for whole runs (unit level only)", "exceptions raised inside gpyreg / SciPy"],
    level_text="Unit-level claim within bounds: no undeclared exception escapes any of the analysed units on any feasible path, including the rare internal histories named in the statement.",
    time_limit=dict(quick=900, thorough=5400))
