"""H-LB: the body of the main `while not is_finished` loop of BADS.optimize(), cut from the AST of the current
source, executed once from an arbitrary controller state (one inductive step with a ranking function).

Serves C03 (budget, iteration bound, truthful message, no non-progress cycle), C13 (mesh only changes in polls, search
mesh <= poll mesh, tol_mesh message), C19 (record block), C04 (recorded incumbent), C10 (fault propagation).
"""
import math

import numpy as np
import z3

from symnp import Engine, Rebinder, SV, SB, SymArray, sym_array, to_obj, _raw, lift
from symnp import ob as O
from symnp.explore import Out
from vf.common import Harness, snap, stubs, cached_options, LoggerStub, TargetFault, FaultSite
from vf import astcut

import pybads.bads.bads as badsmod


class HLB(Harness):
    """params: D, k0, sc0 (search_count at loop head), level (0|1), enough_points(bool), fault(bool), ssi_stale(bool)"""
    name = "H-LB"
    functions = (badsmod.BADS.optimize, badsmod.BADS._update_search_bounds_, badsmod.BADS._eval_improvement_,
                 badsmod.BADS._check_mesh_overflow_)
    stubs_doc = ("_search_step_: contract proved by H-SS (search_count+1; <=1 evaluation; search_success +<=1 only with an evaluation; incumbent value never increases in deterministic mode)",
                 "_poll_step_: contract proved by H-PS (0..2D evaluations, each only below the budget; exponent +1 (capped) / -1 / -2; search_size_integer lowered on failure; incumbent value never increases)",
                 "iteration_history: get() returns fresh symbolic past values, record() is captured", "gp object: hyper-parameter getter only",
                 "var_transf.inverse_transf: fresh symbolic vector (recorded)")
    assumptions_doc = ("loop-head invariant: (func_count < budget or search_count == search_n_try) and 0 <= search_success <= search_count and poll_iteration <= max_iter - 1",
                       "default search_mesh_expand = 0, improvement_quantile = 0.5", "mesh exponent concrete from the stated range")

    _cache = {}

    def unit(self, rb):
        src = open(badsmod.__file__).read()
        key = hash(src)
        if key not in HLB._cache:
            HLB._cache[key] = astcut.main_loop_body(src, badsmod.__dict__)
        code, names, l0, l1 = HLB._cache[key]
        g = rb.globals_for("pybads.bads.bads")
        exec(compile(code, f"<loop body of optimize() {badsmod.__file__}:{l0}-{l1}>", "exec"), g)
        return g["_loop_body"]

    def case(self, eng):
        p = self.p
        D, k0, sc0 = p["D"], p.get("k0", -1), p["sc0"]
        level = p.get("level", 0)
        fault = p.get("fault", False)
        fsite = FaultSite(p.get("fault_kind"))
        opts = cached_options(D, {})
        opts["noise_size"] = math.sqrt(opts["tol_fun"])
        ntry = int(opts["search_n_try"])
        cap = int(opts["max_poll_grid_number"])
        rb = Rebinder(eng.concrete, stubs=stubs())
        body = self.unit(rb)
        B = rb.cls(badsmod.BADS)
        Bv = eng.integer("B"); fc = eng.integer("fc"); it = eng.integer("it"); maxit = eng.integer("maxit"); ss = eng.integer("ss")
        if not eng.concrete:
            eng.assume(z3.And(Bv.e >= 1, Bv.e <= 10 ** 6, fc.e >= 1, it.e >= 0, maxit.e >= 1, maxit.e <= 10 ** 6, it.e <= maxit.e - 1,
                              ss.e >= 0, ss.e <= sc0))
            eng.assume(z3.Or(fc.e < Bv.e, z3.BoolVal(sc0 == ntry)))
            eng.assume(fc.e <= Bv.e + 2 * D + 2)
        opts["max_fun_evals"] = Bv
        opts["max_iter"] = maxit
        self_ = B.__new__(B)
        self_.D = D
        self_.options = opts
        self_.logger = LoggerStub()
        self_.logging_action = [""]
        self_.u = sym_array(eng, "u", (D,))
        self_.u_best = self_.u.copy()
        self_.yval = eng.real("yval")
        self_.fval = self_.yval if level == 0 else eng.real("fval")
        self_.fsd = 0.0 if level == 0 else eng.real("fsd")
        self_.mesh_size_integer = k0
        self_.mesh_size = 2.0 ** k0
        self_.search_success = ss
        self_.search_spree = 0
        self_.restarts = 0
        self_.mesh_overflows = 0
        y_pre = self_.yval

        class FL:
            pass
        fl = FL()
        fl.func_count = fc
        npts = 50 if p.get("enough_points", True) else D
        fl.Y = np.zeros((npts, 1))
        fl.X_flag = np.ones(npts, bool)
        self_.function_logger = fl
        ssi0 = min(0, 2 * k0 - 10) - (3 if p.get("ssi_stale") else 0)
        if p.get("ktol") is not None:
            opts["tol_mesh"] = 2.0 ** p["ktol"]      # a user tolerance that is an exact power of two
        # the tolerance "put on the mesh" exactly as _init_optim_state_ does (H-SB executes that code)
        tol_on_mesh = float(opts["poll_mesh_multiplier"] ** np.ceil(np.log(opts["tol_mesh"]) / np.log(opts["poll_mesh_multiplier"])))
        self_.optim_state = dict(iter=None, search_count=sc0, search_size_integer=ssi0, tol_mesh=tol_on_mesh,
                                 uncertainty_handling_level=level, lb=np.full((1, D), -3.0), ub=np.full((1, D), 3.0))
        rec = {}

        class Hist:
            def get(s, k):
                class A:
                    def __getitem__(s2, i):
                        return eng.fresh_real("h_" + k) if k in ("fval", "yval") else 0.0
                return A()

            def record(s, k, v, i):
                rec[k] = (v, i)
        self_.iteration_history = Hist()
        inv_calls = []

        class VT:
            def inverse_transf(s, u):
                xo = sym_array(eng, f"xo{len(inv_calls)}", (D,))
                inv_calls.append((snap(np.asarray(_raw(u))), xo))
                return xo
        self_.var_transf = VT()
        ev = {"search": None, "poll": None, "k_after_poll": None}

        def move_incumbent(tagname):
            if eng.choose(tagname + "_moves"):
                ynew = eng.fresh_real("ynew")
                if not eng.concrete:
                    eng.assume(ynew.e < lift(self_.yval))
                elif not (ynew < self_.yval):
                    pass
                self_.yval = ynew
                if level == 0:
                    self_.fval = ynew
                self_.u = sym_array(eng, tagname + "_u", (D,))
                self_.u_best = self_.u.copy()

        def search(gp):
            self_.optim_state["search_count"] += 1
            if fault and eng.choose("fault_s"):
                fsite.fire("target failed in search")
            e = eng.choose("s_eval")
            if e:
                fl.func_count = fl.func_count + 1
                if eng.choose("s_succ"):
                    self_.search_success = self_.search_success + 1
                move_incumbent("s")
            ev["search"] = e
            return None, 0, 0, 0, gp

        def poll(gp):
            if fault and eng.choose("fault_p"):
                fsite.fire("target failed in poll")
            pn = eng.fresh_int("p")
            if not eng.concrete:
                eng.assume(z3.And(pn.e >= 0, pn.e <= 2 * D, z3.Implies(pn.e > 0, O.C(fl.func_count + pn <= Bv))))
            fl.func_count = fl.func_count + pn
            k = self_.mesh_size_integer
            if eng.choose("p_succ"):
                dk = min(k + 1, cap) - k
            else:
                dk = -2 if eng.choose("p_acc") else -1
                self_.optim_state["search_size_integer"] = min(self_.optim_state["search_size_integer"], 2 * (k + dk) - 10)
            self_.mesh_size_integer = k + dk
            self_.mesh_size = 2.0 ** self_.mesh_size_integer
            self_.optim_state["mesh_size"] = self_.mesh_size
            move_incumbent("p")
            ev["poll"] = dk
            ev["k_after_poll"] = self_.mesh_size_integer
        self_._search_step_ = search
        self_._poll_step_ = poll
        self_._re_evaluate_history_ = lambda gp: None
        gp = type("GP", (), {"get_hyperparameters": lambda s, as_array=True: np.zeros(3)})()
        Lin = dict(is_finished=False, poll_iteration=it, gp=gp, loop_iter=0, hyp_dict={}, timer=None, Ns_gp=0, sn2hpd=0)
        out = Out()
        exc = None
        try:
            R = body(self_, Lin)
        except Exception as e:
            if not fsite.raised:
                raise
            exc = e
        if fault:
            out.ob("fault_escapes_loop_body", fsite.escaped(exc))
        if exc is not None:
            out.tag = dict(exc=True)
            return out
        fin, msg = bool(R["is_finished"]), R["msg"]
        fc1, it1 = fl.func_count, R["poll_iteration"]
        sc1, ss1 = self_.optim_state["search_count"], self_.search_success
        k1 = int(self_.mesh_size_integer)
        out.tag = dict(fin=fin, search=ev["search"], poll=ev["poll"], sc=int(sc1), msg=msg.split("options")[-1][:14] if msg else "")
        # ------------------------------------------------------------------------------- C03
        out.ob("budget_never_exceeded", O.le(fc1, O.vmax(fc, Bv)))
        out.ob("iteration_bound", O.le(it1, maxit - 1))
        mesh1 = self_.optim_state["mesh_size"]
        if fin:
            conds = {"max_fun_evals": O.ge(fc1, Bv), "max_iter": O.ge(it1, maxit - 1), "tol_mesh": mesh1 < opts["tol_mesh"]}
            known_msg = [k for k in list(conds) + ["tol_fun"] if k in msg]
            out.ob("termination_message_names_a_condition", len(known_msg) == 1)
            for k in known_msg:
                if k in conds:
                    out.ob("termination_message_true", conds[k])
            out.ob("optim_state_message_recorded", self_.optim_state["termination_msg"] == msg)
        else:
            out.ob("not_finished_means_no_condition_holds", O.And(O.lt(fc1, Bv), not (mesh1 < tol_on_mesh)))
            S0 = (Bv - fc) + (maxit - it)
            S1 = (Bv - fc1) + (maxit - it1)
            f0 = O.Ite(O.gt(ss, 0), 1, 0)
            f1 = O.Ite(O.gt(ss1, 0), 1, 0)
            r0, r1 = ntry - sc0, ntry - int(sc1)
            dec = O.Or(O.lt(S1, S0), O.And(O.eq(S1, S0, 0.0), O.lt(f1, f0)), O.And(O.eq(S1, S0, 0.0), O.eq(f1, f0, 0.0), r1 < r0))
            out.ob("ranking_function_decreases", dec)
            out.ob("ranking_function_bounded", O.And(O.ge(S1, 0), r1 >= 0))
            out.ob("loop_invariant_preserved", O.And(O.Or(O.lt(fc1, Bv), int(sc1) == ntry), O.le(ss1, int(sc1)), O.ge(ss1, 0), 0 <= int(sc1) <= ntry))
        # ------------------------------------------------------------------------------- C13
        k_expected = ev["k_after_poll"] if ev["poll"] is not None else k0
        out.ob("mesh_exponent_changes_only_in_poll", k1 == k_expected)
        out.ob("search_mesh_not_above_poll_mesh_at_loop_head", R["self"].optim_state["search_mesh_size"] <= 2.0 ** k0 if "self" in R else self_.search_mesh_size <= 2.0 ** k0)
        out.ob("mesh_size_consistent", self_.optim_state["mesh_size"] == 2.0 ** k1 and self_.mesh_size == 2.0 ** k1)
        # ------------------------------------------------------------------------------- C19 / C04 record block
        did_poll = ev["poll"] is not None
        if did_poll or fin:
            need = ["u", "x", "yval", "fval", "fsd", "mesh_size", "func_count"]     # the fields the property speaks about
            out.ob("record_all_fields", all(k in rec for k in need))
            if all(k in rec for k in need):
                out.ob("record_at_current_iteration", O.And(*[O.eq(rec[k][1], it, 0.0) for k in need]))
                out.ob("recorded_u_is_incumbent", O.rows_eq(np.asarray(_raw(rec["u"][0])), np.asarray(_raw(self_.u)), 0.0))
                out.ob("recorded_x_is_inverse_transform_of_u",
                       len(inv_calls) >= 1 and O.And(O.rows_eq(inv_calls[-1][0], np.asarray(_raw(self_.u)), 0.0),
                                                     O.rows_eq(np.asarray(_raw(rec["x"][0])), np.asarray(_raw(inv_calls[-1][1])), 0.0)))
                out.ob("recorded_values_are_current", O.And(O.eq(rec["yval"][0], self_.yval, 0.0), O.eq(rec["fval"][0], self_.fval, 0.0),
                                                            O.eq(rec["fsd"][0], self_.fsd, 0.0), O.eq(rec["func_count"][0], fc1, 0.0),
                                                            rec["mesh_size"][0] == self_.mesh_size))
                if level == 0:
                    out.ob("recorded_value_never_above_previous_incumbent", O.le(rec["fval"][0], y_pre))
        else:
            out.ob("no_record_between_searches", not rec)
        out.ob("incumbent_u_is_u_best", O.rows_eq(np.asarray(_raw(self_.u)), np.asarray(_raw(self_.u_best)), 0.0))
        return out


class HLBNoisy(HLB):
    """The loop body for a noisy target at a concrete poll iteration `it` >= 1 with the real IterationHistory: the
    record block followed by the re-estimation / swap block.  params: D, it (1..3), k0"""
    name = "H-LB/noisy"
    stubs_doc = HLB.stubs_doc + ("_re_evaluate_history_: writes fresh symbolic fval / fsd >= 0 for every recorded iterate (the GP re-estimation)",)
    assumptions_doc = ("search_count == search_n_try (a poll takes place); recorded iterates 0..it-1 arbitrary symbolic; incumbent tuple consistent at the loop head",)

    def case(self, eng):
        import pybads.utils.iteration_history as ihmod
        p = self.p
        D, k0, it = p["D"], p.get("k0", -2), p["it"]
        opts = cached_options(D, {})
        opts["noise_size"] = 1.0
        ntry = int(opts["search_n_try"])
        rb = Rebinder(eng.concrete, stubs=stubs())
        body = self.unit(rb)
        B = rb.cls(badsmod.BADS)
        IH = rb.cls(ihmod.IterationHistory)
        opts["max_fun_evals"] = 10 ** 6
        opts["max_iter"] = 10 ** 6
        s = B.__new__(B)
        s.D, s.options, s.logger, s.logging_action = D, opts, LoggerStub(), [""]
        gp = type("GP", (), {"get_hyperparameters": lambda g, as_array=True: np.zeros(3), "__deepcopy__": lambda g, memo: g})()
        H = IH(["u", "x", "yval", "fval", "fsd", "mesh_size", "search_mesh_size", "gp_hyp_full", "gp", "func_count"])
        hu = [sym_array(eng, f"hu{i}", (D,)) for i in range(it)]
        hy = [eng.real(f"hy{i}") for i in range(it)]
        for i in range(it):
            H.record("u", hu[i], i); H.record("yval", hy[i], i); H.record("fval", eng.real(f"hf{i}"), i)
            fs_ = eng.real(f"hs{i}")
            if not eng.concrete:
                eng.assume(fs_.e >= 0)
            H.record("fsd", fs_, i); H.record("gp", gp, i); H.record("gp_hyp_full", np.zeros(3), i)
            H.record("mesh_size", 2.0 ** (-i), i); H.record("search_mesh_size", 2.0 ** (-10 - 2 * i), i); H.record("func_count", 10 + 3 * i, i)
        s.iteration_history = H
        s.u = sym_array(eng, "u", (D,))
        s.u_best = s.u.copy()
        s.yval, s.fval, s.fsd = eng.real("yval"), eng.real("fval"), eng.real("fsd")
        if not eng.concrete:
            eng.assume(s.fsd.e >= 0)
        s.mesh_size_integer, s.mesh_size = k0, 2.0 ** k0
        s.search_success, s.search_spree, s.restarts, s.mesh_overflows = 0, 0, 0, 0
        fl = type("FL", (), {})()
        fl.func_count, fl.Y, fl.X_flag = 40, np.zeros((50, 1)), np.ones(50, bool)
        s.function_logger = fl
        s.optim_state = dict(iter=None, search_count=ntry, search_size_integer=min(0, 2 * k0 - 10), tol_mesh=2.0 ** -19,
                             uncertainty_handling_level=1, lb=np.full((1, D), -3.0), ub=np.full((1, D), 3.0))
        s.var_transf = type("VT", (), {"inverse_transf": lambda v, u: u})()
        polled = {}

        def poll(gp_):
            # the poll may move the incumbent to a freshly evaluated point (pair kept consistent, H-PS)
            if eng.choose("p_moves"):
                s.u = sym_array(eng, "pu", (D,))
                s.u_best = s.u.copy()
                s.yval, s.fval = eng.real("py"), eng.real("pf")
            s.mesh_size_integer -= 1
            s.mesh_size = 2.0 ** s.mesh_size_integer
            s.optim_state["mesh_size"] = s.mesh_size
            polled["u"], polled["y"] = snap(np.asarray(_raw(s.u))), s.yval
            polled["k"] = s.mesh_size_integer

        def reeval(gp_):
            n = len(H.get("u"))
            for i in range(n):
                H.record("fval", eng.fresh_real("rf"), i)
                v = eng.fresh_real("rs")
                if not eng.concrete:
                    eng.assume(v.e >= 0)
                H.record("fsd", v, i)
        s._poll_step_ = poll
        s._search_step_ = lambda g: (None, 0, 0, 0, g)
        s._re_evaluate_history_ = reeval
        out = Out()
        R = body(s, dict(is_finished=False, poll_iteration=it, gp=gp, loop_iter=0, hyp_dict={}, timer=None, Ns_gp=0, sn2hpd=0))
        U, Ub = np.asarray(_raw(s.u)), np.asarray(_raw(s.u_best))
        pairs = [(np.asarray(_raw(hu[i])), hy[i]) for i in range(it)] + [(polled["u"], polled["y"])]
        out.tag = dict(fin=bool(R["is_finished"]), it=int(R["poll_iteration"]))
        out.ob("noisy_incumbent_point_and_observation_belong_together",
               O.Or(*[O.And(O.rows_eq(U, pu, 0.0), O.eq(s.yval, py, 0.0)) for pu, py in pairs]))
        out.ob("noisy_incumbent_survives_next_iteration", O.rows_eq(U, Ub, 0.0))     # the loop head does self.u = self.u_best
        out.ob("mesh_exponent_changes_only_in_poll", int(s.mesh_size_integer) == int(polled["k"]))
        out.ob("mesh_size_consistent", s.mesh_size == 2.0 ** int(polled["k"]) and s.optim_state["mesh_size"] == 2.0 ** int(polled["k"]))
        rec_u, rec_y = np.asarray(_raw(H.get("u")[it])), H.get("yval")[it]
        out.ob("recorded_point_and_observation_belong_together", O.And(O.rows_eq(rec_u, polled["u"], 0.0), O.eq(rec_y, polled["y"], 0.0)))
        return out
