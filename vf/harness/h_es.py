"""H-ES: ESSearch.__call__ (ES-ell initialisation) with the real force_to_grid and contraints_check; normal draws,
acquisition values and the constraint oracle are symbolic.  H-HG: ESSearchHedge.__call__ (probabilities, choice).
Serves C18 (and C09: survivor sets of every size, C02: ES-internal filtering)."""
import math

import numpy as np
import z3

from symnp import Engine, Rebinder, SV, SB, SIdx, SymArray, sym_array, to_obj, _raw
from symnp import ob as O
from symnp.explore import Out
from vf.common import Harness, snap, stubs, RngStub, cached_options, LoggerStub, col

import pybads.search.es_search as esmod
import pybads.search.search_hedge as hgmod
import pybads.function_logger.constraints_check as ccmod
import pybads.search.grid_functions as gfmod


class HES(Harness):
    """params: D, mu (= lambda), cons (None|'bool'), M (logged rows), strategy ('ell'|'wcm')"""
    name = "H-ES"
    functions = (esmod.ESSearch.__call__, esmod.ESSearch.__init__, esmod.ESSearch._get_selection_idx_mask_, esmod.ESSearchELL._initialize_,
                 ccmod.contraints_check, gfmod.force_to_grid)
    stubs_doc = ("np.random.normal: fresh symbolic draws", "acq_fcn_lcb: fresh symbolic acquisition value per candidate row (rows recorded)",
                 "non_box_cons: fresh symbolic answer per row", "gp: X shape and poll_scale only")
    assumptions_doc = ("search box [-2,2]^D on the search mesh 2^-4; incumbent inside it", "mu = lambda small (the real run uses 2048)")

    def case(self, eng):
        p = self.p
        D, mu, cons, M = p["D"], p["mu"], p.get("cons"), p.get("M", 0)
        opts = cached_options(D, {})
        eng.rng = RngStub(eng)
        acq_calls, cons_calls = [], []

        def acq(xi, fcnt, gp_, sb=None):
            n = len(xi)
            zs = [eng.fresh_real("z") for _ in range(n)]
            acq_calls.append((snap(np.asarray(_raw(xi))), zs))
            return col(zs, eng), col([0.0] * n, eng) if n else np.zeros((0, 1)), col([1.0] * n, eng) if n else np.zeros((0, 1))

        def nbc(Xq):
            n = len(Xq)
            ans = [eng.fresh_bool("viol") for _ in range(n)]
            cons_calls.append((snap(np.asarray(_raw(Xq))), ans))
            if eng.concrete:
                return np.array(ans, dtype=bool)
            return to_obj(np.array(ans, dtype=object)) if n else np.zeros((0,), dtype=bool)
        st = {"pybads.search.es_search": dict(acq_fcn_lcb=acq)}
        rb = Rebinder(eng.concrete, stubs=stubs(**st))
        ES = rb.cls(esmod.ESSearchELL)
        search = ES(mu, mu, opts)
        sms = 2.0 ** -4
        u = sym_array(eng, "u", (D,))
        if not eng.concrete:
            for v in _raw(u):
                eng.assume(z3.And(v.e >= -2, v.e <= 2))
        Xlog = sym_array(eng, "X", (M, D)) if M else np.zeros((0, D))

        class VT:
            def inverse_transf(s, x):
                return x
        fl = type("FL", (), {})()
        fl.X, fl.X_max_idx, fl.func_count, fl.variable_transformer = Xlog, M - 1, 10, VT()
        gp = type("GP", (), {})()
        gp.X = np.zeros((3, D))
        gp.temporary_data = dict(poll_scale=np.ones(D))
        optim_state = dict(mesh_size=2.0 ** -1, search_factor=1.0, search_mesh_size=sms, tol_mesh=2.0 ** -6,
                           lb_search=np.full((1, D), -2.0), ub_search=np.full((1, D), 2.0))
        out = Out()
        us, z = search(u, np.full((1, D), -2.5), np.full((1, D), 2.5), fl, gp, optim_state, True, nbc if cons else None)
        out.tag = dict(gens=len(acq_calls), rows=[int(len(c[1])) for c in acq_calls])
        allz = [(c[0][i], c[1][i]) for c in acq_calls for i in range(len(c[1]))]
        empty = np.asarray(_raw(us)).size == 0
        out.ob("empty_search_set_only_without_survivors", empty == (len(allz) == 0))
        if empty or not allz:
            return out
        out.ob("returned_value_is_lowest_acquisition_of_survivors", O.And(*[O.le(z, zv) for _, zv in allz]))
        out.ob("returned_point_is_candidate_with_that_value", O.Or(*[O.And(O.rows_eq(np.asarray(_raw(us)), row, 0.0), O.eq(z, zv, 0.0)) for row, zv in allz]))
        for row, _ in allz:
            out.ob("candidates_inside_mesh_rounded_box", O.And(*[O.And(O.le(-2.0, row[d]), O.le(row[d], 2.0)) for d in range(D)]))
            if cons:
                out.ob("candidates_oracle_feasible", O.Or(*[O.And(O.rows_eq(Xq[r], row, 0.0), O.Not(ans[r])) for Xq, ans in cons_calls for r in range(len(ans))]))
        out.ob("two_generations", len(acq_calls) == int(opts["n_search_iter"]))
        return out


class HHG(Harness):
    """params: n (strategies), gamma ('opt'|'sym'), D"""
    name = "H-HG"
    functions = (hgmod.ESSearchHedge.__call__, hgmod.ESSearchHedge.__init__)
    stubs_doc = ("exp: uninterpreted positive increasing function", "np.random.rand: fresh uniform draw in [0,1)",
                 "ESSearchWM / ESSearchELL: stubs recording that they were invoked")
    assumptions_doc = ("hedge scores g arbitrary symbolic reals; 0 < gamma <= 1/n",)

    def case(self, eng):
        p = self.p
        n, D = p.get("n", 2), p.get("D", 2)
        opts = cached_options(D, {})
        eng.rng = RngStub(eng)
        invoked, strat_args = [], []
        sentinel_cons = lambda X: np.zeros(len(X), dtype=bool)

        class StubES:
            def __init__(s, mu, lamb, o):
                s.kind = None

            def __call__(s, u, lb, ub, func_logger, gp, optim_state, sum_rule=True, non_box_cons=None):
                invoked.append(type(s).__name__)
                strat_args.append((sum_rule, non_box_cons))
                return np.zeros(D), 0.0
        WM = type("ESSearchWM", (StubES,), {})
        ELL = type("ESSearchELL", (StubES,), {})
        st = {"pybads.search.search_hedge": dict(ESSearchWM=WM, ESSearchELL=ELL)}
        rb = Rebinder(eng.concrete, stubs=stubs(**st))
        HG = rb.cls(hgmod.ESSearchHedge)
        fcns = [("ES-wcm", 1), ("ES-ell", 1), ("ES-wcm", 1)][:n]
        if p.get("gamma") == "sym":
            opts["hedge_gamma"] = eng.real("gamma")
            if not eng.concrete:
                eng.assume(z3.And(opts["hedge_gamma"].e > 0, opts["hedge_gamma"].e * n <= 1))
        h = HG(fcns, opts, sentinel_cons)
        g = sym_array(eng, "g", (n,))
        if not eng.concrete:
            for v in _raw(g):
                eng.assume(z3.And(v.e >= -50, v.e <= 50))
        h.g = g
        # an arbitrary point of the run: the hedge has been consulted `count` times before
        cnt = eng.integer("count")
        if not eng.concrete:
            eng.assume(z3.And(cnt.e >= 0, cnt.e <= 100000))
        h.count = cnt
        out = Out()
        h(np.zeros(D), None, None, None, None, {})
        prob = np.asarray(_raw(h.prob))
        gam = opts["hedge_gamma"]
        out.tag = dict(chosen=int(np.asarray(h.chosen_hedge).ravel()[0]), invoked=invoked)
        out.ob("probabilities_sum_to_one", O.approx(O.vsum(list(prob)), 1, 1e-12))
        out.ob("each_probability_at_least_exploration_floor_at_most_one", O.And(*[O.And(O.ge(pv, gam), O.le(pv, 1)) for pv in prob]))
        ch = int(np.asarray(h.chosen_hedge).ravel()[0])
        out.ob("strategy_receives_constraint_and_sum_rule", len(strat_args) == 1 and strat_args[0][1] is sentinel_cons and strat_args[0][0] == fcns[ch][1])
        out.ob("chosen_index_valid_and_strategy_invoked", 0 <= ch < n and len(invoked) == 1 and invoked[0] == {"ES-wcm": "ESSearchWM", "ES-ell": "ESSearchELL"}[fcns[ch][0]])
        return out
