"""H-PS: BADS._poll_step_ with the real poll_mads_2n, contraints_check, _eval_improvement_, _update_incumbent_,
_check_mesh_overflow_; GP / acquisition / target are symbolic stubs.

Serves C13 (mesh update rule), C14 (frame membership), C04 (incumbent), C03 (<= 2D evaluations, budget), C01/C02
(evaluated points filtered against the hard box / oracle), C10 (fault propagation).
"""
import math

import numpy as np
import z3

from symnp import Engine, Rebinder, SV, SB, SIdx, SymArray, sym_array, to_obj, _raw, arr1
from symnp import ob as O
from symnp.explore import Out
from vf.common import Harness, snap, stubs, RngStub, cached_options, LoggerStub, TargetFault, FaultSite, col

import pybads.bads.bads as badsmod
import importlib
pmmod = importlib.import_module("pybads.poll.poll_mads_2n")
import pybads.function_logger.constraints_check as ccmod


class HPS(Harness):
    """params: D, complete_poll, accelerate, budget_left, k0, level(0|1|2), cons(None|'bool'), dirs('real'|'fixed'),
    cc('real'|'box'), M (logged rows seen by the real filter), fault(bool), iter, ssi_off"""
    name = "H-PS"
    functions = (badsmod.BADS._poll_step_, badsmod.BADS._eval_improvement_, badsmod.BADS._update_incumbent_,
                 badsmod.BADS._check_mesh_overflow_, pmmod.poll_mads_2n, ccmod.contraints_check)
    stubs_doc = ("function_logger: returns a fresh symbolic value per call (functional), counts calls, may raise TargetFault at a symbolic position",
                 "acq_fcn_lcb: fresh symbolic z, f_mu, f_s>0 per row", "erfc: one fresh level in (0,2) per call",
                 "local_gp_fitting / add_and_update_gp: return the GP stub; gp.predict: fresh (f, s2>=0)",
                 "_is_gp_refit_time_: refit False, calibration flag symbolic; _get_target_from_gp_: incumbent value minus tol_fun",
                 "np.random (randint/permutation): symbolic source, every outcome explored",
                 "iteration_history.get: fresh symbolic past values")
    assumptions_doc = ("incumbent inside the transformed hard box (I_box); deterministic mode: fval == yval, fsd == 0 (I_inc)",
                       "mesh exponent k0 concrete from the stated range; gp poll_scale == 1")

    def case(self, eng):
        p = self.p
        D, k0 = p["D"], p.get("k0", -1)
        level = p.get("level", 0)
        cons = p.get("cons")
        fault = p.get("fault", False)
        fsite = FaultSite(p.get("fault_kind"))
        it = p.get("iter", 5)
        opts = cached_options(D, {"complete_poll": p.get("complete_poll", False), "accelerate_mesh": p.get("accelerate", True), **p.get("extra_opts", {})})
        opts["noise_size"] = math.sqrt(opts["tol_fun"]) if level == 0 else 1.0
        if level > 0:
            opts["min_failed_poll_steps"] = np.inf
            opts["specify_target_noise"] = level == 2
        rng = RngStub(eng)
        eng.rng = rng
        out = Out()
        B_seen = []
        cons_calls = []

        def nbc(Xq):
            n = len(Xq)
            ans = [eng.fresh_bool("viol") for _ in range(n)]
            cons_calls.append((snap(np.asarray(_raw(Xq))), ans))
            if eng.concrete:
                return np.array(ans, dtype=bool)
            return to_obj(np.array(ans, dtype=object)) if n else np.zeros((0,), dtype=bool)

        nacq = [0]

        def acq(xi, fcnt, gp_, sb=None):
            n = len(xi)
            nacq[0] += 1
            z = col([eng.fresh_real("z") for _ in range(n)], eng)
            fm = col([eng.fresh_real("fm") for _ in range(n)], eng)
            fsv = [eng.fresh_real("fs") for _ in range(n)]
            if not eng.concrete:
                for v in fsv:
                    eng.assume(v.e > 0)
            return z, fm, col(fsv, eng)

        def erfc_stub(x):
            r = eng.fresh_real("erfc")
            if not eng.concrete:
                eng.assume(z3.And(r.e > 0, r.e < 2))
            x = np.asarray(_raw(x))
            o = np.empty(x.shape, dtype=object)
            o.fill(r)
            return o.astype(float) if eng.concrete else o.view(SymArray)

        def cc_box(U, lb, ub, tol, fl, proj, nbc_):
            U = np.asarray(_raw(U))
            keep = []
            for r in range(U.shape[0]):
                inb = O.And(*[O.And(O.le(np.asarray(_raw(lb))[0, d], U[r, d]), O.le(U[r, d], np.asarray(_raw(ub))[0, d])) for d in range(D)])
                c = O.C(inb)
                if (c if isinstance(c, bool) else bool(SB(c))):
                    keep.append(r)
            res = U[keep]
            return res.astype(float) if eng.concrete else res.view(SymArray)

        gp_fit_calls, gp_add_calls = [], []

        def lgf(gp_, current_point, *a):
            gp_fit_calls.append(snap(np.asarray(_raw(current_point))))
            return gp_, 1

        def aug(fl_, gp_, x_new, y_new, sd_new=None, options=None):
            gp_add_calls.append((snap(np.asarray(_raw(x_new))), y_new, sd_new))
            return gp_
        st = {"pybads.bads.bads": dict(acq_fcn_lcb=acq, erfc=erfc_stub, local_gp_fitting=lgf, add_and_update_gp=aug)}
        if p.get("cc", "real") == "box":
            st["pybads.bads.bads"]["contraints_check"] = cc_box
        rb = Rebinder(eng.concrete, stubs=stubs(**st))
        if p.get("dirs", "real") == "fixed":
            rb.globals_for("pybads.bads.bads")["poll_mads_2n"] = lambda D_, ps, sm, ms: np.vstack((np.eye(D_), -np.eye(D_)))
        else:
            real_pm = rb.func(pmmod.poll_mads_2n)

            def pm_wrap(*a):
                Bn = real_pm(*a)
                B_seen.append(snap(np.asarray(_raw(Bn))))
                return Bn
            rb.globals_for("pybads.bads.bads")["poll_mads_2n"] = pm_wrap
        B = rb.cls(badsmod.BADS)
        self = B.__new__(B)
        self.D = D
        self.options = opts
        self.logger = LoggerStub()
        self.logging_action = [""]
        self.u = sym_array(eng, "u", (D,))
        self.u_best = self.u.copy()
        if p.get("extra_opts", {}).get("force_poll_mesh") and not eng.concrete:
            # candidates are re-snapped to the search mesh: the incumbent is a search-mesh point (as every evaluated point is)
            for d_ in range(D):
                if p.get("u_fixed") is not None:
                    eng.assume(_raw(self.u)[d_].e == float(p["u_fixed"]))
                    continue
                eng.assume(_raw(self.u)[d_].e == z3.ToReal(z3.Int(f"ugrid{d_}")) * (2.0 ** min(0, k0 * int(opts["search_grid_multiplier"]) - int(opts["search_grid_number"]))))
        self.yval = eng.real("yval")
        if level == 0:
            self.fval = self.yval
            self.fsd = 0.0
        else:
            self.fval = eng.real("fval")
            self.fsd = eng.real("fsd")
            if not eng.concrete:
                eng.assume(self.fsd.e > 0)
        self.best_gp_hyp = np.zeros(3)
        self.mesh_size_integer = k0
        self.mesh_size = 2.0 ** k0
        self.mesh_overflows = 0
        self.gp_refitted_flag = False
        self.gp_exit_flag = np.inf
        self.last_skipped = -1
        self.reset_gp = False
        self.non_box_cons = nbc if cons else None
        self.gamma_uncertain_interval = None
        ssi = min(0, k0 * int(opts["search_grid_multiplier"]) - int(opts["search_grid_number"]))
        hist_f = [eng.real(f"hf{i}") for i in range(it + 1)]
        hist_s = [0.0 if level == 0 else eng.real(f"hs{i}") for i in range(it + 1)]
        if level > 0 and not eng.concrete:
            for v in hist_s:
                eng.assume(v.e >= 0)
        u_pre = snap(np.asarray(_raw(self.u)))

        class Hist:
            def get(s, k):
                if k == "fval":
                    return hist_f
                if k == "fsd":
                    return hist_s
                if k == "u":
                    return [self.u] * (it + 1)
                raise KeyError(k)
        self.iteration_history = Hist()
        lb = sym_array(eng, "lb", (1, D))
        ub = sym_array(eng, "ub", (1, D))
        self.lower_bounds, self.upper_bounds = lb, ub
        if not eng.concrete:
            for d in range(D):
                eng.assume(z3.And(lb[0, d].e <= self.u[d].e, self.u[d].e <= ub[0, d].e, lb[0, d].e >= -64, ub[0, d].e <= 64,
                                  lb[0, d].e <= -1, ub[0, d].e >= 1))
        suff = float(np.maximum(opts["tol_improvement"] * self.mesh_size ** opts["forcing_exponent"], opts["tol_fun"]))
        self.sufficient_improvement = np.float64(suff)
        self.optim_state = dict(mesh_size=self.mesh_size, search_mesh_size=2.0 ** ssi, search_size_integer=ssi, tol_mesh=2.0 ** -19,
                                iter=it, periodic_vars=np.zeros((1, D), bool), uncertainty_handling_level=level,
                                fval=self.fval, fsd=self.fsd, u_success=[], y_success=[], f_success=[],
                                # mirrors of the incumbent in optim_state may be stale after a noisy swap: arbitrary values
                                u=sym_array(eng, "stale_u", (D,)), yval=eng.real("stale_y"), usuccess=sym_array(eng, "stale_us", (D,)))
        fc0 = 10
        opts["max_fun_evals"] = fc0 + p.get("budget_left", 10)
        # optim_state keeps the copy taken at construction; _init_optimization_ later reserves the final noisy samples
        # out of options["max_fun_evals"] only
        self.optim_state["max_fun_evals"] = opts["max_fun_evals"] + (int(opts["noise_final_samples"]) if level > 0 else 0)
        ys, sds, us, fc_before = [], [], [], []
        M = p.get("M", 0)
        Xlog = sym_array(eng, "X", (M, D)) if M else np.zeros((0, D))
        harness = self

        class VT:
            def inverse_transf(s, u):
                return u

        class FL:
            func_count = fc0
            # the real logger's flags are fixed by BADS.__init__ (level0); auto-detected noise raises only optim_state's level
            noise_flag = p.get("level0", level) > 0
            he_noise_flag = p.get("level0", level) == 2
            uncertainty_handling_level = p.get("level0", level)
            X = Xlog
            X_max_idx = M - 1
            variable_transformer = VT()

            def __call__(s, u, record_duplicate_data=True):
                fc_before.append(s.func_count)
                if fault and eng.choose("fault"):
                    us.append(None)
                    fsite.fire("target failed")
                y = eng.fresh_real("y")
                ys.append(y)
                us.append(snap(np.asarray(_raw(u))))
                s.func_count += 1
                sd = None
                if level == 2:
                    sd = eng.fresh_real("ysd")
                    if not eng.concrete:
                        eng.assume(sd.e > 0)
                sds.append(sd)
                return y, sd, len(ys)
        self.function_logger = FL()
        preds = []

        class GP:
            temporary_data = dict(poll_scale=np.ones(D), len_scale=1.0)

            def get_hyperparameters(s, as_array=True):
                return np.zeros(3)

            def predict(s, x):
                f = eng.fresh_real("gpf")
                s2 = eng.fresh_real("gps2")
                if not eng.concrete:
                    eng.assume(s2.e >= 0)
                preds.append((f, s2))
                return col([f], eng), col([s2], eng)
        gp = GP()
        ncal = [0]

        def refit(alpha):
            ncal[0] += 1
            return False, eng.choose("calib")
        self._is_gp_refit_time_ = refit
        tol_fun = opts["tol_fun"]

        def target(u, gp_, h):
            fv = self.optim_state["fval"]
            ft = fv - tol_fun
            mk = (lambda v: np.array([v])) if eng.concrete else (lambda v: arr1([v]))
            return mk(fv), 0, mk(ft)
        self._get_target_from_gp_ = target
        self._save_gp_stats_ = lambda *a: None
        self._display_function_log_ = lambda *a: None
        y_before, f_before = self.yval, self.fval
        exc = None
        try:
            self._poll_step_(gp)
        except Exception as e:
            if not fsite.raised:
                raise
            exc = e
        n = len(ys)
        k1 = int(self.mesh_size_integer)
        out.tag = dict(n=n, dk=k1 - k0, exc=bool(exc), calls=len(us))
        # ---------------------------------------------------------------- C10: fault propagation
        if fault:
            faulted = [i for i, u_ in enumerate(us) if u_ is None]
            out.ob("fault_escapes_unchanged", (exc is not None) == bool(faulted) and fsite.escaped(exc))
            out.ob("no_call_after_fault", (not faulted) or faulted[0] == len(us) - 1)
        if exc is not None:
            return out
        # ---------------------------------------------------------------- C03
        cap = int(opts["max_poll_grid_number"])
        out.ob("poll_at_most_2D_evaluations", len(us) <= 2 * D)
        out.ob("poll_calls_only_below_budget", all(c < opts["max_fun_evals"] for c in fc_before))
        out.ob("poll_func_count_consistent", self.function_logger.func_count == fc0 + n)
        # ---------------------------------------------------------------- C13
        if level == 0:
            impr = [f_before - y for y in ys]
        else:
            q = opts["improvement_quantile"]
            impr = []
            for (f, s2) in preds[:n]:
                impr.append(f_before - f)       # improvement_quantile 0.5: sigma multiplier is 0
        success = O.Or(*[O.gt(v, suff) for v in impr]) if impr else False
        acc_on = bool(opts["accelerate_mesh"]) and it > opts["accelerate_mesh_steps"]
        if acc_on:
            fb = hist_f[it - int(opts["accelerate_mesh_steps"])]
            stall = O.lt(fb - self.fval, opts["tol_fun"])
        else:
            stall = False
        exp_k = O.Ite(success, min(k0 + 1, cap), O.Ite(stall, k0 - 2, k0 - 1))
        out.ob("mesh_exponent_transition", O.eq(k1, exp_k, 0.0))
        out.ob("mesh_size_is_power_of_two", O.And(self.mesh_size == 2.0 ** k1, self.optim_state["mesh_size"] == 2.0 ** k1))
        out.ob("mesh_at_most_cap", k1 <= cap)
        out.ob("search_mesh_not_above_poll_mesh", int(self.optim_state["search_size_integer"]) <= k1 or O.truth(success) is not False and int(self.optim_state["search_size_integer"]) <= k0)
        # ---------------------------------------------------------------- C04 (deterministic mode)
        ynew = self.yval
        if level == 0:
            allv = [y_before] + ys
            out.ob("incumbent_value_is_minimum", O.And(*[O.le(ynew, v) for v in allv]))
            pairs = [(u_pre, y_before)] + [(us[i], ys[i]) for i in range(n)]
            unew = np.asarray(_raw(self.u))
            out.ob("incumbent_is_evaluated_pair", O.Or(*[O.And(O.rows_eq(unew, pu, 0.0), O.eq(ynew, py, 0.0)) for pu, py in pairs]))
            better = O.Or(*[O.lt(y, y_before) for y in ys]) if ys else False
            out.ob("incumbent_moves_iff_strictly_better", O.Iff(better, O.Not(O.And(O.rows_eq(unew, u_pre, 0.0), O.eq(ynew, y_before, 0.0)))) if True else True)
            out.ob("fval_equals_yval_fsd_zero", O.And(O.eq(self.fval, ynew, 0.0), O.eq(self.fsd, 0, 0.0)))
            out.ob("u_best_tracks_u", O.rows_eq(np.asarray(_raw(self.u_best)), unew, 0.0))
            out.ob("optim_state_tracks_incumbent", O.And(O.eq(self.optim_state["fval"], self.fval, 0.0)))
        # ---------------------------------------------------------------- C14 / C01 / C02
        ms = 2.0 ** k0
        lbv, ubv = np.asarray(_raw(lb)), np.asarray(_raw(ub))
        dirs = B_seen[0] if B_seen else np.vstack((np.eye(D), -np.eye(D)))
        out.ob("directions_generated_once", len(B_seen) <= 1)
        chosen = []
        for j in range(n):
            uj = us[j]
            alts = [O.And(*[O.eq(uj[d], u_pre[d] + ms * dirs[r, d], 0.0) for d in range(D)]) for r in range(dirs.shape[0])]
            out.ob("poll_point_on_frame", O.Or(*alts))
            out.ob("poll_point_in_hard_box", O.And(*[O.And(O.le(lbv[0, d], uj[d]), O.le(uj[d], ubv[0, d])) for d in range(D)]))
            if cons:
                out.ob("poll_point_oracle_feasible", O.Or(*[O.And(O.rows_eq(Xq[r], uj, 0.0), O.Not(ans[r])) for Xq, ans in cons_calls for r in range(len(ans))]))
        for a in range(n):
            for b in range(a):
                out.ob("poll_points_pairwise_distinct", O.Not(O.rows_eq(us[a], us[b], 0.0)))
        # C15 at the call sites: the local GP is re-centred on the incumbent, and (noisy modes) updated with exactly the new observation
        for cp in gp_fit_calls:
            out.ob("gp_recentred_on_incumbent", O.rows_eq(cp, u_pre, 0.0))
        if level > 0:
            out.ob("gp_updated_once_per_observation", len(gp_add_calls) == n)
            for j in range(min(n, len(gp_add_calls))):
                xa, ya, sa = gp_add_calls[j]
                ok_sd = (sa is None) if level == 1 else (sa is not None and O.truth(O.eq(sa, sds[j], 0.0)) is not False and O.eq(sa, sds[j], 0.0))
                out.ob("gp_updated_with_the_new_observation", O.And(O.rows_eq(xa, us[j], 0.0), O.eq(ya, ys[j], 0.0), ok_sd))
        return out
