"""H-SS: BADS._search_step_ with the real force_to_grid, contraints_check, _eval_improvement_, _update_incumbent_,
_update_search_stats_; hedge / GP / acquisition / target are symbolic stubs.

Serves C18 (<= 1 evaluation, evaluated point = filtered candidate inside the mesh-rounded box), C03 (search_count +1 on
every path, success only with an evaluation), C04 (incumbent), C01/C02, C10.
"""
import math

import numpy as np
import z3

from symnp import Engine, Rebinder, SV, SB, SIdx, SymArray, sym_array, to_obj, _raw, arr1
from symnp import ob as O
from symnp.explore import Out
from vf.common import Harness, snap, stubs, RngStub, cached_options, LoggerStub, TargetFault, FaultSite, col

import pybads.bads.bads as badsmod
import pybads.search.grid_functions as gfmod
import pybads.function_logger.constraints_check as ccmod


class HSS(Harness):
    """params: D, M (logged rows), k0, level, cons, fault, sc0"""
    name = "H-SS"
    functions = (badsmod.BADS._search_step_, badsmod.BADS._eval_improvement_, badsmod.BADS._update_incumbent_,
                 badsmod.BADS._update_search_stats_, gfmod.force_to_grid, ccmod.contraints_check)
    stubs_doc = ("search hedge: returns one arbitrary symbolic candidate point and acquisition value",
                 "function_logger: fresh symbolic value per call, may raise TargetFault", "acq_fcn_lcb: fresh z, f_mu, f_s per row",
                 "local_gp_fitting / add_and_update_gp / udist: GP stub, fresh non-negative distance",
                 "_is_gp_refit_time_: symbolic refit flag; _get_target_from_gp_: incumbent value minus tol_fun")
    assumptions_doc = ("incumbent inside the search box; lb_search <= ub_search on the search mesh (H-SB)",
                       "deterministic mode: fval == yval, fsd == 0")

    def case(self, eng):
        p = self.p
        D, M, k0 = p["D"], p.get("M", 1), p.get("k0", -1)
        level, cons, fault, sc0 = p.get("level", 0), p.get("cons"), p.get("fault", False), p.get("sc0", 1)
        fsite = FaultSite(p.get("fault_kind"))
        opts = cached_options(D, {})
        opts["noise_size"] = math.sqrt(opts["tol_fun"]) if level == 0 else 1.0
        opts["specify_target_noise"] = level == 2
        eng.rng = RngStub(eng)
        cons_calls = []

        def nbc(Xq):
            n = len(Xq)
            ans = [eng.fresh_bool("viol") for _ in range(n)]
            cons_calls.append((snap(np.asarray(_raw(Xq))), ans))
            if eng.concrete:
                return np.array(ans, dtype=bool)
            return to_obj(np.array(ans, dtype=object)) if n else np.zeros((0,), dtype=bool)

        def acq(xi, fcnt, gp_, sb=None):
            n = len(xi)
            return (col([eng.fresh_real("z") for _ in range(n)], eng), col([eng.fresh_real("fm") for _ in range(n)], eng),
                    col([eng.fresh_real("fs") for _ in range(n)], eng))

        def udist_stub(*a):
            r = eng.fresh_real("ud")
            if not eng.concrete:
                eng.assume(r.e >= 0)
            return r
        gp_fit_calls, gp_add_calls = [], []

        def lgf(gp_, current_point, *a):
            gp_fit_calls.append(snap(np.asarray(_raw(current_point))))
            return gp_, 1

        def aug(fl_, gp_, x_new, y_new, sd_new=None, options=None):
            gp_add_calls.append((snap(np.asarray(_raw(x_new))), y_new, sd_new))
            return gp_
        st = {"pybads.bads.bads": dict(acq_fcn_lcb=acq, local_gp_fitting=lgf, add_and_update_gp=aug, udist=udist_stub)}
        rb = Rebinder(eng.concrete, stubs=stubs(**st))
        B = rb.cls(badsmod.BADS)
        self = B.__new__(B)
        self.D = D
        self.options = opts
        self.logger = LoggerStub()
        self.logging_action = [""]
        self.non_box_cons = nbc if cons else None
        ssi = min(0, 2 * k0 - 10)
        sms = 2.0 ** ssi
        # search box on the search mesh: symbolic integers times the mesh
        lbs_i = sym_array(eng, "lbi", (1, D), integer=True)
        ubs_i = sym_array(eng, "ubi", (1, D), integer=True)
        lb_search = lbs_i * sms
        ub_search = ubs_i * sms
        self.lower_bounds = sym_array(eng, "lb", (1, D))
        self.upper_bounds = sym_array(eng, "ub", (1, D))
        self.u = sym_array(eng, "u", (D,))
        self.u_best = self.u.copy()
        if not eng.concrete:
            for d in range(D):
                eng.assume(z3.And(lbs_i[0, d].e <= ubs_i[0, d].e, lbs_i[0, d].e * sms >= -8, ubs_i[0, d].e * sms <= 8))
                eng.assume(z3.And(self.lower_bounds[0, d].e <= lb_search[0, d].r, ub_search[0, d].r <= self.upper_bounds[0, d].e,
                                  self.lower_bounds[0, d].e >= -9, self.upper_bounds[0, d].e <= 9))
                eng.assume(z3.And(self.u[d].e >= self.lower_bounds[0, d].e, self.u[d].e <= self.upper_bounds[0, d].e))
        self.yval = eng.real("yval")
        if level == 0:
            self.fval, self.fsd = self.yval, 0.0
        else:
            self.fval, self.fsd = eng.real("fval"), eng.real("fsd")
            if not eng.concrete:
                eng.assume(self.fsd.e > 0)
        self.best_gp_hyp = np.zeros(3)
        self.reset_gp = False
        self.gp_refitted_flag = False
        self.gp_exit_flag = np.inf
        self.search_success = 0
        self.mesh_size = 2.0 ** k0
        self.gamma_uncertain_interval = None
        suff = float(np.maximum(opts["tol_improvement"] * self.mesh_size ** opts["forcing_exponent"], opts["tol_fun"]))
        self.optim_state = dict(search_count=sc0, uncertainty_handling_level=level, search_mesh_size=sms, mesh_size=self.mesh_size,
                                lb_search=lb_search, ub_search=ub_search, tol_mesh=2.0 ** p.get("ktol", -19), lb=self.lower_bounds, ub=self.upper_bounds,
                                scale=1.0, periodic_vars=np.zeros((1, D), bool), search_sufficient_improvement=np.float64(suff),
                                search_factor=1, sd_level=0.1, iter=3, u_success=[], y_success=[], f_success=[], fval=self.fval, fsd=self.fsd,
                                max_fun_evals=int(opts["max_fun_evals"]) + (int(opts["noise_final_samples"]) if level > 0 else 0))
        Xlog = sym_array(eng, "X", (M, D)) if M else np.zeros((0, D))
        if not eng.concrete and M:
            for v in _raw(Xlog).ravel():
                eng.assume(z3.And(v.e >= -9, v.e <= 9))
        ys, us, fcb = [], [], []

        class VT:
            def inverse_transf(s, u):
                return u

        class FL:
            func_count = 10
            # the real logger's flags are fixed by BADS.__init__ (level0); auto-detected noise raises only optim_state's level
            noise_flag = p.get("level0", level) > 0
            he_noise_flag = p.get("level0", level) == 2
            uncertainty_handling_level = p.get("level0", level)
            X = Xlog
            X_max_idx = M - 1
            variable_transformer = VT()

            def __call__(s, u, record_duplicate_data=True):
                if fault and eng.choose("fault"):
                    us.append(None)
                    fsite.fire("target failed")
                y = eng.fresh_real("y")
                ys.append(y)
                us.append(snap(np.asarray(_raw(u))))
                s.func_count += 1
                sd = None
                if level == 2:
                    sd = eng.fresh_real("ysd")
                    if not eng.concrete:
                        eng.assume(sd.e > 0)
                return y, sd, 0
        self.function_logger = FL()
        cand = sym_array(eng, "c", (D,))
        if not eng.concrete:
            for v in _raw(cand):
                eng.assume(z3.And(v.e >= -16, v.e <= 16))
        hedge_calls, hedge_updates = [], []

        class HG:
            count = 0
            chosen_search_fun = ("ES-wcm", 1)

            def __call__(s, *a):
                hedge_calls.append(1)
                return cand, eng.real("zc")

            def update_hedge(s, *a):
                hedge_updates.append(1)
        self.search_es_hedge = HG()
        self.iteration_history = None
        preds = []

        class GP:
            temporary_data = dict(poll_scale=np.ones(D), len_scale=1.0)
            y = np.zeros((3, 1))

            def get_hyperparameters(s, as_array=True):
                return np.zeros(3)

            def predict(s, x):
                f = eng.fresh_real("gpf")
                s2 = eng.fresh_real("gps2")
                if not eng.concrete:
                    eng.assume(s2.e >= 0)
                preds.append((f, s2))
                return col([f], eng), col([s2], eng)

            def __deepcopy__(s, memo):
                return s
        gp = GP()
        self._is_gp_refit_time_ = lambda a: (eng.choose("refit"), False)
        tol_fun = opts["tol_fun"]
        mk = (lambda v: np.array([v])) if eng.concrete else (lambda v: arr1([v]))
        self._get_target_from_gp_ = lambda u, g_, h: (mk(self.fval), 0, mk(self.fval - tol_fun))
        self._save_gp_stats_ = lambda *a: None
        self._display_function_log_ = lambda *a: None
        y0, f0 = self.yval, self.fval
        u0 = snap(np.asarray(_raw(self.u)))
        out = Out()
        exc = None
        try:
            self._search_step_(gp)
        except Exception as e:
            if not fsite.raised:
                raise
            exc = e
        n = len(ys)
        out.tag = dict(n=n, succ=int(self.search_success), sc=int(self.optim_state["search_count"]), exc=bool(exc), calls=len(us))
        if fault:
            faulted = [i for i, u_ in enumerate(us) if u_ is None]
            out.ob("fault_escapes_unchanged", (exc is not None) == bool(faulted) and fsite.escaped(exc))
            out.ob("no_call_after_fault", (not faulted) or faulted[0] == len(us) - 1)
        if exc is not None:
            return out
        out.ob("search_at_most_one_evaluation", len(us) <= 1)
        out.ob("search_count_incremented_once", self.optim_state["search_count"] == sc0 + 1)
        out.ob("search_success_only_with_evaluation", 0 <= self.search_success <= n)
        out.ob("hedge_called_once", len(hedge_calls) == 1)
        lbs, ubs = np.asarray(_raw(lb_search)), np.asarray(_raw(ub_search))
        lbh, ubh = np.asarray(_raw(self.lower_bounds)), np.asarray(_raw(self.upper_bounds))
        C = np.asarray(_raw(cand))
        if n == 1:
            uj = us[0]
            proj = [O.vmax(O.vmin(_rint(C[d] / sms) * sms, ubs[0, d]), lbs[0, d]) for d in range(D)]
            out.ob("evaluated_point_is_projected_gridded_candidate", O.And(*[O.eq(uj[d], proj[d], 0.0) for d in range(D)]))
            out.ob("evaluated_point_in_search_box", O.And(*[O.And(O.le(lbs[0, d], uj[d]), O.le(uj[d], ubs[0, d])) for d in range(D)]))
            out.ob("evaluated_point_in_hard_box", O.And(*[O.And(O.le(lbh[0, d], uj[d]), O.le(uj[d], ubh[0, d])) for d in range(D)]))
            if cons:
                out.ob("evaluated_point_oracle_feasible", O.Or(*[O.And(O.rows_eq(Xq[r], uj, 0.0), O.Not(ans[r])) for Xq, ans in cons_calls for r in range(len(ans))]))
            if level == 0:
                impr = f0 - ys[0]
                out.ob("search_success_iff_sufficient_improvement", O.Iff(O.gt(impr, suff), self.search_success == 1))
        for cp in gp_fit_calls:
            # the local GP is centred on the incumbent (before the evaluation) or on the newly evaluated point (noisy posterior update)
            out.ob("gp_recentred_on_incumbent", O.Or(O.rows_eq(cp, u0, 0.0), *([O.rows_eq(cp, us[0], 0.0)] if n == 1 else [])))
        if n == 1 and gp_add_calls:
            xa, ya, sa = gp_add_calls[0]
            out.ob("gp_updated_with_the_new_observation", O.And(O.rows_eq(xa, us[0], 0.0), O.eq(ya, ys[0], 0.0)))
        if level == 0:
            allv = [y0] + ys
            ynew = self.yval
            unew = np.asarray(_raw(self.u))
            out.ob("incumbent_value_is_minimum", O.And(*[O.le(ynew, v) for v in allv]))
            pairs = [(u0, y0)] + [(us[i], ys[i]) for i in range(n)]
            out.ob("incumbent_is_evaluated_pair", O.Or(*[O.And(O.rows_eq(unew, pu, 0.0), O.eq(ynew, py, 0.0)) for pu, py in pairs]))
            better = O.lt(ys[0], y0) if n else False
            out.ob("incumbent_moves_iff_strictly_better", O.Iff(better, O.Not(O.And(O.rows_eq(unew, u0, 0.0), O.eq(ynew, y0, 0.0)))))
            out.ob("fval_equals_yval_fsd_zero", O.And(O.eq(self.fval, ynew, 0.0), O.eq(self.fsd, 0, 0.0)))
            out.ob("u_best_tracks_u", O.rows_eq(np.asarray(_raw(self.u_best)), unew, 0.0))
        return out


def _rint(v):
    if isinstance(v, SV):
        return v.rint()
    return float(np.round(v))
