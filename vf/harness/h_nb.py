"""H-NB: get_grid_search_neighbors, _get_fevals_data, add_and_update_gp, acq_fcn_lcb (real udist with the cdist
encoding).  Serves C15."""
import math

import numpy as np
import z3

from symnp import Engine, Rebinder, SV, SB, SIdx, SymArray, sym_array, to_obj, _raw
from symnp import ob as O
from symnp.explore import Out
from vf.common import Harness, snap, stubs, col, cached_options

import pybads.bads.gaussian_process_train as gptmod
import pybads.search.grid_functions as gfmod
import pybads.acquisition_functions.acq_fcn_lcb as acqmod_pkg
import importlib
acqmod = importlib.import_module("pybads.acquisition_functions.acq_fcn_lcb")


class HNB(Harness):
    """params: N (logged rows), D, noise (bool), ls ('one'|'sym'), nmin, nmax, buf"""
    name = "H-NB/neighbors"
    functions = (gptmod.get_grid_search_neighbors, gfmod.udist)
    stubs_doc = ("scipy cdist: exact symbolic Euclidean distance (sqrt encoding)", "gp: temporary_data only")
    assumptions_doc = ("logged SDs positive", "length scale positive")

    def case(self, eng):
        p = self.p
        N, D, noise = p["N"], p["D"], p.get("noise", False)
        nmin, nmax, buf = p.get("nmin", 2), p.get("nmax", 3), p.get("buf", 100)
        rb = Rebinder(eng.concrete, stubs=stubs())
        f = rb.func(gptmod.get_grid_search_neighbors)
        X = sym_array(eng, "X", (N, D)); Y = sym_array(eng, "Y", (N, 1)); S = sym_array(eng, "S", (N, 1))
        u = sym_array(eng, "u", (D,))
        if p.get("ls", "one") == "sym":
            ls = sym_array(eng, "ls", (D,))
        elif isinstance(p.get("ls"), list):
            ls = np.array(p["ls"], dtype=float)
        else:
            ls = 1.0
        if not eng.concrete:
            for i in range(N):
                eng.assume(z3.And(S[i, 0].e > 0, S[i, 0].e <= 8))
            for v in list(_raw(X).ravel()) + list(_raw(u)):
                eng.assume(z3.And(v.e >= -8, v.e <= 8))
            if isinstance(ls, SymArray):
                for v in _raw(ls):
                    eng.assume(z3.And(v.e >= 0.25, v.e <= 4))
        fl = type("FL", (), {})()
        fl.X, fl.Y, fl.S, fl.X_max_idx, fl.noise_flag = X, Y, S, N - 1, noise
        gp = type("GP", (), {})()
        gp.temporary_data = dict(len_scale=ls, effective_radius=1.0)
        options = dict(gp_radius=3, n_train_max=nmax, n_train_min=nmin, buffer_ntrain=buf)
        os_ = dict(lb=np.full((1, D), -9.0), ub=np.full((1, D), 9.0), scale=1.0, periodic_vars=np.zeros((1, D), bool))
        Xr, Yr, Sr = f(fl, u, gp, options, os_)
        Xr = np.asarray(_raw(Xr)); Yr = np.asarray(_raw(Yr))
        n = Xr.shape[0]
        out = Out()
        out.tag = dict(n=int(n))
        Xv, Yv, Sv, uv = np.asarray(_raw(X)), np.asarray(_raw(Y)), np.asarray(_raw(S)), np.asarray(_raw(u))
        lsv = [ls] * D if isinstance(ls, float) else list(np.asarray(_raw(ls)))

        def d2(row):
            return O.vsum([((row[d] - uv[d]) / lsv[d]) * ((row[d] - uv[d]) / lsv[d]) for d in range(D)])
        dlog = [d2(Xv[i]) for i in range(N)]
        dr = [d2(Xr[r]) for r in range(n)]
        out.ob("training_rows_sorted_by_distance", O.And(*[O.le(dr[r], dr[r + 1]) for r in range(n - 1)]))
        # every returned row is a log row with its own value (and variance); distinct log rows are used
        Srv = np.asarray(_raw(Sr)) if Sr is not None else None
        for r in range(n):
            alts = []
            for i in range(N):
                c = [O.rows_eq(Xr[r], Xv[i], 0.0), O.eq(Yr[r, 0], Yv[i, 0], 0.0)]
                alts.append(O.And(*c))
            out.ob("training_pair_is_logged_pair", O.Or(*alts))
            if noise:
                out.ob("training_noise_is_logged_sd_squared", O.Or(*[O.And(O.rows_eq(Xr[r], Xv[i], 0.0), O.eq(Yr[r, 0], Yv[i, 0], 0.0),
                                                                            O.eq(Srv[r, 0], Sv[i, 0] * Sv[i, 0], 0.0)) for i in range(N)]))
        if not noise:
            out.ob("no_noise_column_without_noise", Sr is None)
        # the n nearest: every log row not farther than the last returned one ... count of rows strictly closer < n
        if n:
            for i in range(N):
                closer = O.lt(dlog[i], dr[0]) if n else False
                out.ob("nearest_first", O.Not(closer))
            if n < N:
                # no omitted row is strictly closer than the farthest returned row
                strictly_closer = O.count([O.lt(dlog[i], dr[n - 1]) for i in range(N)])
                out.ob("no_closer_row_left_out", O.le(strictly_closer, n - 1))
        within = O.count([O.le(dlog[i], 9.0) for i in range(N)])
        exp_n = O.vmax(nmin, nmax - buf, O.vmin(nmax, within))
        exp_n = O.vmin(exp_n, N)
        out.ob("training_set_size_rule", O.eq(exp_n, n, 0.0))
        return out


class HFevals(Harness):
    """params: N, D, noise, nflag (rows flagged)"""
    name = "H-NB/fevals"
    functions = (gptmod._get_fevals_data,)

    def case(self, eng):
        p = self.p
        N, D, noise, nflag = p["N"], p["D"], p.get("noise", True), p.get("nflag", 2)
        rb = Rebinder(eng.concrete, stubs=stubs())
        f = rb.func(gptmod._get_fevals_data)
        X = sym_array(eng, "X", (N, D)); Y = sym_array(eng, "Y", (N, 1)); S = sym_array(eng, "S", (N, 1))
        fl = type("FL", (), {})()
        fl.X, fl.Y, fl.S, fl.noise_flag = X, Y, S, noise
        fl.X_flag = np.array([i < nflag for i in range(N)])
        fl.fun_eval_time = np.zeros((N, 1))
        x, y, s2, t = f(fl)
        out = Out()
        out.tag = dict(n=len(x))
        x, y = np.asarray(_raw(x)), np.asarray(_raw(y))
        out.ob("all_flagged_rows_used", x.shape[0] == nflag and y.shape[0] == nflag)
        for i in range(min(nflag, x.shape[0])):
            out.ob("training_pair_is_logged_pair", O.And(O.rows_eq(x[i], np.asarray(_raw(X))[i], 0.0), O.eq(y[i, 0], np.asarray(_raw(Y))[i, 0], 0.0)))
            if noise:
                sv = np.asarray(_raw(S))[i, 0]
                out.ob("training_noise_is_logged_sd_squared", O.eq(np.asarray(_raw(s2))[i, 0], sv * sv, 0.0))
        if not noise:
            out.ob("no_noise_column_without_noise", s2 is None)
        return out


class HAddGP(Harness):
    """params: N (training rows), D, specified (bool)"""
    name = "H-NB/add"
    functions = (gptmod.add_and_update_gp,)
    stubs_doc = ("gp.update: records that it was called",)

    def case(self, eng):
        p = self.p
        N, D, spec = p["N"], p["D"], p.get("specified", True)
        rb = Rebinder(eng.concrete, stubs=stubs())
        f = rb.func(gptmod.add_and_update_gp)
        gp = type("GP", (), {})()
        gp.X = sym_array(eng, "X", (N, D)); gp.y = sym_array(eng, "Y", (N, 1)); gp.s2 = sym_array(eng, "S2", (N, 1)) if spec else None
        upd = []
        gp.update = lambda **k: upd.append(k)
        x = sym_array(eng, "x", (D,)); y = eng.real("y"); sd = eng.real("sd") if spec else None
        X0, Y0, S0 = snap(gp.X), snap(gp.y), snap(gp.s2) if spec else None
        g2 = f(None, gp, x, y, sd, dict(specify_target_noise=spec))
        out = Out()
        X1, Y1 = np.asarray(_raw(g2.X)), np.asarray(_raw(g2.y))
        out.tag = dict(n=int(X1.shape[0]))
        out.ob("training_set_extended_by_one", X1.shape == (N + 1, D) and Y1.shape == (N + 1, 1))
        if X1.shape == (N + 1, D):
            out.ob("old_training_pairs_kept", O.And(*[O.eq(a, b, 0.0) for a, b in zip(X1[:N].ravel(), X0.ravel())], *[O.eq(a, b, 0.0) for a, b in zip(Y1[:N].ravel(), Y0.ravel())]))
            out.ob("new_training_pair_is_the_observation", O.And(O.rows_eq(X1[N], np.asarray(_raw(x)), 0.0), O.eq(Y1[N, 0], y, 0.0)))
            if spec:
                S1 = np.asarray(_raw(g2.s2))
                out.ob("training_noise_is_logged_sd_squared", S1.shape == (N + 1, 1) and O.And(O.eq(S1[N, 0], sd * sd, 0.0), *[O.eq(a, b, 0.0) for a, b in zip(S1[:N].ravel(), S0.ravel())]))
        out.ob("posterior_updated", len(upd) == 1)
        return out


class HAcq(Harness):
    """params: n (rows), D, t (func_count + 1)"""
    name = "H-NB/acq"
    functions = (acqmod.acq_fcn_lcb,)
    stubs_doc = ("gp.predict: fresh symbolic mean and variance >= 0 per row",)

    def case(self, eng):
        p = self.p
        n, D, t = p["n"], p["D"], p["t"]
        rb = Rebinder(eng.concrete, stubs=stubs())
        f = rb.func(acqmod.acq_fcn_lcb)
        mu = [eng.real(f"mu{i}") for i in range(n)]
        s2 = [eng.real(f"v{i}") for i in range(n)]
        if not eng.concrete:
            for v in s2:
                eng.assume(z3.And(v.e >= 0, v.e <= 1024))
        gp = type("GP", (), {})()
        gp.predict = lambda xi: (col(mu, eng), col(s2, eng))
        xi = sym_array(eng, "xi", (n, D))
        z, fm, fs = f(xi, t - 1, gp)
        z, fm, fs = np.asarray(_raw(z)), np.asarray(_raw(fm)), np.asarray(_raw(fs))
        out = Out()
        out.tag = dict(n=n)
        beta = 0.2 * 2 * math.log(D * t ** 2 * math.pi ** 2 / (6 * 0.1))
        sb = math.sqrt(beta)
        for i in range(n):
            out.ob("acquisition_is_mean_minus_sqrt_beta_sd", O.And(O.ge(fs[i, 0], 0), O.approx(fs[i, 0] * fs[i, 0], s2[i], 1e-12),
                                                                  O.approx(z[i, 0], mu[i] - sb * fs[i, 0], 1e-9), O.eq(fm[i, 0], mu[i], 0.0)))
        return out


class HTrainOpts(Harness):
    """_get_gp_training_options: the N-dependent schedule of training restarts.
    params: D, rows (logged rows), iter, second, B (None: symbolic budget and initial-design size; k: budget = rows + k), ne_max"""
    name = "H-NB/trainopts"
    functions = (gptmod._get_gp_training_options,)
    stubs_doc = ("function_logger: `rows` flagged rows with symbolic evaluation counts >= 1", "iteration_history.record: recorded")
    assumptions_doc = ("eff_starting_points = rows logged by the initial design, 1 <= eff_starting_points <= logged rows",
                       "max_fun_evals >= eff_starting_points (C03's condition: the budget covers the initial design), symbolic integer <= 10^6",
                       "other options at the documented defaults of the current tree")

    def case(self, eng):
        p = self.p
        D, rows = p.get("D", 2), p.get("rows", 2)
        opts = cached_options(D, {})
        rb = Rebinder(eng.concrete, stubs=stubs())
        f = rb.func(gptmod._get_gp_training_options)
        if p.get("B") is None:
            B = eng.integer("B")
            esp = eng.integer("esp")
            if not eng.concrete:
                eng.assume(z3.And(esp.e >= 1, esp.e <= rows, B.e >= esp.e, B.e <= 10 ** 6))
        else:
            # concrete budget (offset from the initial design) where the schedule value is converted to an int (nonlinear)
            esp = rows
            B = rows + p["B"]
        opts["max_fun_evals"] = B
        ne = np.zeros((rows + 1, 1)).astype(object).view(SymArray) if not eng.concrete else np.zeros((rows + 1, 1))
        for i in range(rows):
            v = eng.integer(f"ne_{i}")
            if not eng.concrete:
                eng.assume(z3.And(v.e >= 1, v.e <= p.get("ne_max", 50)))
            ne[i, 0] = v
        fl = type("FL", (), {})()
        fl.n_evals = ne
        fl.X_flag = np.array([True] * rows + [False])
        rec = []
        ih = type("IH", (), {"record": lambda s, k, v, it: rec.append((k, v, it))})()
        it = p.get("iter", 0)
        os_ = dict(iter=it, eff_starting_points=esp, ntrain=rows)
        out = Out()
        gt = f(os_, ih, opts, {}, 3, fl, second_fit=p.get("second", False))
        out.tag = dict(rec=len(rec))
        fin = opts["gp_train_n_init_final"]
        if p.get("B") is not None:
            # (value range of the cubic schedule: only with a concrete budget; with a symbolic one the query is a quartic
            # over the integers that z3 answers only after its retry budget)
            out.ob("training_restarts_at_least_final_value", O.ge(gt["init_N"], fin))
            out.ob("training_restarts_at_most_initial_value", O.le(gt["init_N"], max(opts["gp_train_n_init"], fin)))
        out.ob("training_options_complete", all(k in gt for k in ("init_method", "tol_opt", "sampler", "init_N", "opts_N", "n_samples")))
        return out
