"""H-FL: FunctionLogger.__call__ / add / _record / _expand_arrays — one step from an arbitrary valid log.

Serves C12 (log semantics), C10 (invalid target outcomes), C03 (honest counting), C01 (clamped point passed).
"""
import math

import numpy as np
import z3

from symnp import Engine, Rebinder, SV, SB, SymArray, sym_array, to_obj, _raw, arr1
from symnp import ob as O
from symnp.explore import Out
from vf.common import Harness, TimerStub, snap, FAULT_BASES

import pybads.function_logger.function_logger as flmod


class TargetError(Exception):
    """fresh exception class raised by the target stub"""


VALID_KINDS = ("py", "arr1")
INVALID_KINDS = ("nan", "inf", "-inf", "complex", "arr_complex", "vec2", "tuple2", "none")
HE_INVALID = ("nontuple", "tuple3", "sd_nonpos", "sd_nan", "sd_inf", "sd_none")


class HFL(Harness):
    """params: D, n_filled, cache, level (0,1,2), op ('call'|'add'), record (bool), kind, transform (bool)"""
    name = "H-FL"
    functions = (flmod.FunctionLogger.__call__, flmod.FunctionLogger.add, flmod.FunctionLogger._record,
                 flmod.FunctionLogger._expand_arrays, flmod.FunctionLogger.__init__)
    stubs_doc = ("target fun: returns a fresh symbolic value (and SD) of the configured kind / raises TargetError",
                 "Timer: constant durations", "variable_transformer.inverse_transf: fresh symbolic vector (recorded)")
    assumptions_doc = ("pre-state log satisfies the representation invariant: rows<=Xn filled and flagged, n_evals>=1, S>0 "
                       "under noise, under specified noise filled rows pairwise distinct",)

    def case(self, eng):
        p = self.p
        D, n, cache, level = p["D"], p["n_filled"], p["cache"], p["level"]
        op, record, kind, transform = p.get("op", "call"), p.get("record", True), p.get("kind", "py"), p.get("transform", False)
        noise = level > 0
        he = level == 2
        rb = Rebinder(eng.concrete, stubs={"pybads.function_logger.function_logger": {"Timer": TimerStub}})
        FL = rb.cls(flmod.FunctionLogger)
        calls = []
        y = eng.real("y")
        sd = eng.real("sd") if he or (op == "add" and noise and p.get("add_sd", True)) else None
        if sd is not None and kind not in ("sd_nonpos",) and not eng.concrete:
            eng.assume(sd.e > 0)
        if kind == "sd_nonpos" and not eng.concrete:
            eng.assume(sd.e <= 0)
        yim = eng.real("y_im") if kind in ("complex", "arr_complex") else None
        if kind in ("complex", "arr_complex") and not eng.concrete:
            eng.assume(yim.e != 0)

        def value():
            if kind == "py":
                return y
            if kind == "arr1":
                return arr1([y]) if not eng.concrete else np.array([y])
            if kind == "nan":
                return math.nan
            if kind == "inf":
                return math.inf
            if kind == "-inf":
                return -math.inf
            if kind == "complex":
                return complex(1.5, 2.0) if not eng.concrete else complex(1.5, float(yim) if float(yim) != 0 else 1.0)
            if kind == "arr_complex":        # a complex value in a 1-element array (eigenvalue / sqrt / FFT results)
                return to_obj(np.array([complex(1.5, 2.0)], dtype=object)) if not eng.concrete else np.array([complex(1.5, float(yim) if float(yim) != 0 else 1.0)])
            if kind == "vec2":
                return np.array([1.0, 2.0])
            if kind == "tuple2":          # a (value, SD) pair although the noise is not specified: not a scalar
                return (y, 0.5)
            if kind == "none":
                return None
            return y

        fk = p.get("fault_kind")
        TE = TargetError if fk in (None, "exc") else type("TargetError_" + fk, (TargetError, FAULT_BASES[fk]), {})

        def fun(x):
            calls.append(snap(np.asarray(x)))
            if kind == "raise":
                raise TE("target failed")
            if kind == "raise_noargs":
                raise TE()          # e.g. a bare `assert` or `raise SomeError` in the user's target
            if he:
                if kind == "nontuple":
                    return y
                if kind == "tuple3":
                    return (y, sd, sd)
                if kind == "sd_nan":
                    return (y, math.nan)
                if kind == "sd_inf":
                    return (y, math.inf)
                if kind == "sd_none":
                    return (y, None)
                return (value(), sd)
            return value()

        class VT:
            def inverse_transf(self_, u):
                xo = sym_array(eng, "xo", (1, D))
                calls.append(("inv", snap(np.asarray(u))))
                return xo
        vt = VT() if transform else None
        fl = FL(fun, D, noise, level, cache_size=cache, variable_transformer=vt)
        # ---- arbitrary valid pre-state -----------------------------------------------------------
        def fill(name, w, pos=False):
            a = np.full([cache, w], np.nan).astype(object).view(SymArray) if not eng.concrete else np.full([cache, w], np.nan)
            for i in range(n):
                for j in range(w):
                    v = eng.real(f"{name}_{i}_{j}")
                    if pos and not eng.concrete:
                        eng.assume(v.e > 0)
                    a[i, j] = v
            return a
        fresh = p.get("fresh", False)   # pre-state = exactly what the real __init__ built (n_filled must be 0)
        if fresh:
            assert n == 0
            if not eng.concrete:
                seen = {}   # identity-preserving conversion to object arrays: aliasing created by __init__ is kept
                for nm in ("X", "X_orig", "Y", "Y_orig", "S", "n_evals", "fun_eval_time"):
                    a = getattr(fl, nm, None)
                    if isinstance(a, np.ndarray) and a.dtype != object:
                        if id(a) not in seen:
                            seen[id(a)] = to_obj(a)
                        setattr(fl, nm, seen[id(a)])
            fill = lambda name, w, pos=False: getattr(fl, dict(Xo="X_orig", Yo="Y_orig").get(name, name))
        fl.X = fill("X", D)
        fl.X_orig = fill("Xo", D)
        fl.Y = fill("Y", 1)
        fl.Y_orig = fill("Yo", 1)
        if noise:
            fl.S = fill("S", 1, pos=True)
        ne = np.zeros([cache, 1]).astype(object).view(SymArray) if not eng.concrete else np.zeros([cache, 1])
        for i in range(n):
            v = eng.integer(f"ne_{i}")
            if not eng.concrete:
                eng.assume(z3.And(v.e >= 1, v.e <= 1000))
            ne[i, 0] = v
        fc0 = eng.integer("fc")
        if not eng.concrete:
            eng.assume(z3.And(fc0.e >= 0, fc0.e <= 100000))
        if not fresh:
            fl.n_evals = ne
            fl.X_flag = np.full((cache,), False)
            fl.X_flag[:n] = True
            fl.fun_eval_time = np.full([cache, 1], np.nan) if eng.concrete else to_obj(np.full([cache, 1], np.nan))
            fl.fun_eval_time[:n] = 0.5
            fl.Xn = n - 1
            fl.X_max_idx = n - 1
            fl.func_count = fc0
        else:
            fc0 = fl.func_count
        if he and not eng.concrete:
            for i in range(n):
                for j in range(i):
                    eng.assume(z3.Or(*[fl.X[i, d].e != fl.X[j, d].e for d in range(D)]))
        x = sym_array(eng, "x", (D,))
        pre = {k: snap(getattr(fl, k, None)) for k in ("X", "X_orig", "Y", "Y_orig", "S", "n_evals", "X_flag")}
        # ---- the operation -----------------------------------------------------------------------
        out = Out()
        exc = None
        ret = None
        try:
            if op == "call":
                ret = fl(x, record_duplicate_data=record) if not record else fl(x)
            else:
                ret = fl.add(x, y, sd) if (noise and sd is not None) else fl.add(x, y)
        except TargetError as e:
            exc = e
        except ValueError as e:
            exc = e
        except Exception as e:
            if kind in ("raise", "raise_noargs"):
                exc = e       # some other exception type replaced the target's own: judged by the obligation below
            else:
                raise
        ncalls = len([c for c in calls if not isinstance(c, tuple)])
        Xn1 = fl.Xn
        tag = dict(exc=type(exc).__name__ if exc else None, Xn=int(Xn1), rows=int(fl.X.shape[0]))
        filled = range(n)

        def unchanged(names, rows):
            cs = []
            for nm in names:
                a0, a1 = pre[nm], getattr(fl, nm, None)
                if a0 is None:
                    continue
                a1 = np.asarray(_raw(a1))
                for i in rows:
                    for j in range(a0.shape[1]) if a0.ndim == 2 else [None]:
                        v0 = a0[i, j] if j is not None else a0[i]
                        v1 = a1[i, j] if j is not None else a1[i]
                        cs.append(O.eq(v0, v1, 0.0))
            return O.And(*cs)

        expect_valid = kind in VALID_KINDS or (he and kind == "valid")
        if op == "call":
            out.ob("target_called_once", ncalls == 1)
            if transform:
                inv = [c for c in calls if isinstance(c, tuple)]
                tgt = [c for c in calls if not isinstance(c, tuple)]
                out.ob("target_gets_inverse_transformed_point", len(inv) == 1 and len(tgt) == 1 and
                       O.And(O.rows_eq(inv[0][1], x, 0.0), O.rows_eq(tgt[0], sym_array(eng, "xo", (1, D))[0], 0.0)))
            else:
                out.ob("target_gets_point", ncalls == 1 and O.rows_eq(calls[-1], x, 0.0))
        if kind in ("raise", "raise_noargs"):
            out.ob("target_exception_propagates_same_type", type(exc) is TE)
        elif not expect_valid and op == "call":
            out.ob("invalid_value_raises_ValueError", isinstance(exc, ValueError))
        if exc is not None:
            out.ob("failure_leaves_count", O.eq(fl.func_count, fc0, 0.0))
            out.ob("failure_leaves_log", O.And(unchanged(("X", "X_orig", "Y", "Y_orig", "S", "n_evals"), filled), Xn1 == n - 1))
            if expect_valid:
                out.ob("valid_value_accepted", False)
            out.tag = tag
            return out
        if not expect_valid and op == "call":
            out.tag = tag
            return out
        fval, fsd_r, idx = ret
        tag["idx"] = None if idx is None else int(idx)
        # every path hands the value on as a scalar (it is stored in the GP statistics and the incumbent)
        out.ob("returned_value_is_scalar", not isinstance(fval, np.ndarray))
        if op == "call":
            out.ob("func_count_plus_one", O.eq(fl.func_count, fc0 + 1, 0.0))
            # the SD handed back is the one the target reported for THIS call (new row, merge and unrecorded re-sampling alike)
            out.ob("returned_sd_is_reported_sd", O.eq(fsd_r, sd, 0.0) if he else fsd_r is None)
        else:
            out.ob("add_leaves_func_count", O.eq(fl.func_count, fc0, 0.0))
        dup = [O.rows_eq(pre["X"][i], x, 0.0) for i in filled]
        lens = {nm: getattr(fl, nm).shape[0] for nm in ("X", "X_orig", "Y", "Y_orig", "n_evals", "X_flag", "fun_eval_time")}
        if noise:
            lens["S"] = fl.S.shape[0]
        out.ob("arrays_same_length", len(set(lens.values())) == 1 and fl.X.shape[0] >= Xn1 + 1)
        # the representation invariant assumed for the pre-state is re-established: rows beyond Xn are blank
        blank = []
        for nm in ("X", "X_orig", "Y", "Y_orig", "S"):
            a = getattr(fl, nm, None)
            if a is None:
                continue
            a = np.asarray(_raw(a))
            for v in a[Xn1 + 1:].ravel():
                blank.append(isinstance(v, (float, np.floating)) and math.isnan(v))
        ne_ = np.asarray(_raw(fl.n_evals))
        blank += [(not isinstance(v, SV)) and float(v) == 0.0 for v in ne_[Xn1 + 1:].ravel()]
        blank += [not bool(v) for v in fl.X_flag[Xn1 + 1:]]
        out.ob("unused_rows_stay_blank", all(blank))
        xo_exp = sym_array(eng, "xo", (1, D))[0] if transform else x
        merged_mode = he  # only with specified noise is a repeat merged into the point's own record (statement of C12)
        if not record:
            out.ob("norecord_no_row", Xn1 == n - 1)
            out.ob("norecord_data_unchanged", unchanged(("X", "X_orig", "Y", "Y_orig", "S"), filled))
            ne1 = np.asarray(_raw(fl.n_evals))
            out.ob("norecord_counts_only_matching_row",
                   O.And(*[O.Or(O.eq(ne1[i, 0], pre["n_evals"][i, 0], 0.0),
                                O.And(dup[i], O.eq(ne1[i, 0], pre["n_evals"][i, 0] + 1, 0.0))) for i in filled]))
            out.ob("norecord_returns_value", O.eq(fval, y, 0.0))
        elif Xn1 == n:
            k = n
            out.ob("append_only_if_new", O.Not(O.Or(*dup)) if merged_mode else True)
            X1, Xo1, Y1, Yo1 = (np.asarray(_raw(getattr(fl, nm))) for nm in ("X", "X_orig", "Y", "Y_orig"))
            out.ob("append_exact", O.And(O.rows_eq(X1[k], x, 0.0), O.rows_eq(Xo1[k], xo_exp, 0.0), O.eq(Y1[k, 0], y, 0.0),
                                         O.eq(Yo1[k, 0], y, 0.0)))
            if merged_mode:
                out.ob("append_sd", O.eq(np.asarray(_raw(fl.S))[k, 0], sd, 0.0))
            out.ob("append_bookkeeping", O.And(bool(fl.X_flag[k]), O.eq(np.asarray(_raw(fl.n_evals))[k, 0], 1, 0.0),
                                               fl.X_max_idx == k, idx == k))
            out.ob("others_unchanged", unchanged(("X", "X_orig", "Y", "Y_orig", "S", "n_evals"), filled))
            out.ob("flags_unchanged", bool(np.all(fl.X_flag[:n])) and not bool(np.any(fl.X_flag[k + 1:])))
            out.ob("returns_value", O.eq(fval, y, 0.0))
        else:
            out.ob("merge_only_with_sd", merged_mode)
            out.ob("merge_no_new_row", Xn1 == n - 1)
            i = int(idx)
            out.ob("merge_into_own_record", dup[i] if 0 <= i < n else False)
            if 0 <= i < n and merged_mode:
                S0, Y0 = pre["S"][i, 0], pre["Y"][i, 0]
                sdv = sd if sd is not None else 1
                tn = 1 / (S0 * S0)
                t1 = 1 / (sdv * sdv)
                Y1 = np.asarray(_raw(fl.Y))[i, 0]
                S1 = np.asarray(_raw(fl.S))[i, 0]
                out.ob("merge_precision_weighted_mean", O.eq(Y1, (tn * Y0 + t1 * y) / (tn + t1), 1e-9))
                out.ob("merge_combined_sd", O.And(O.gt(S1, 0), O.eq(S1 * S1 * (tn + t1), 1, 1e-9)))
                out.ob("merge_count", O.eq(np.asarray(_raw(fl.n_evals))[i, 0], pre["n_evals"][i, 0] + 1, 0.0))
                out.ob("merge_returns_merged_value", O.eq(fval, Y1, 0.0))
                others = [r for r in filled if r != i]
                out.ob("merge_others_unchanged", O.And(unchanged(("X", "X_orig", "Y", "Y_orig", "S", "n_evals"), others),
                                                       unchanged(("X", "X_orig", "Y_orig"), [i])))
        out.tag = tag
        return out
