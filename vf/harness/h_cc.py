"""H-CC: contraints_check on symbolic candidates, box, logged rows and constraint oracle.

Serves C17 (filtering), C01 (rows inside the box they were filtered against), C02 (oracle respected).
"""
import math

import numpy as np
import z3

from symnp import Engine, Rebinder, SV, SB, SymArray, sym_array, to_obj, _raw
from symnp import ob as O
from symnp.explore import Out
from vf.common import Harness, snap, normal_range

import pybads.function_logger.constraints_check as ccmod


class HCC(Harness):
    """params: N, D, M, proj, cons (None|'bool'|'real'), k (tol_mesh = 2**k), inf (coords with infinite box), inf_keep_lo / inf_keep_hi
    (coords of `inf` whose lower / upper bound stays finite: half-bounded coordinates)"""
    name = "H-CC"
    functions = (ccmod.contraints_check,)
    stubs_doc = ("non_box_cons: one fresh symbolic answer (Bool, or real compared with 0) per queried row",
                 "function_logger: object with symbolic X rows, X_max_idx; variable_transformer.inverse_transf: fresh symbolic rows")
    assumptions_doc = ("lb <= ub per coordinate", "|values| <= 2^20 so that rounding to tol_mesh/2 stays in the modelled range")

    def case(self, eng):
        p = self.p
        N, D, M, proj = p["N"], p["D"], p["M"], p["proj"]
        cons, k, infc = p.get("cons"), p.get("k", -19), tuple(p.get("inf", ()))
        tol_mesh = 2.0 ** k
        rb = Rebinder(eng.concrete)
        cc = rb.func(ccmod.contraints_check)
        U = sym_array(eng, "U", (N, D))
        lb = sym_array(eng, "lb", (1, D))
        ub = sym_array(eng, "ub", (1, D))
        X = sym_array(eng, "X", (M, D)) if M else np.zeros((0, D))
        if not eng.concrete:
            for d in range(D):
                eng.assume(lb[0, d].e <= ub[0, d].e)
            for a in (U, X, lb, ub):
                for v in np.asarray(_raw(a)).ravel():
                    eng.assume(z3.And(v.e >= -64, v.e <= 64))
        if p.get("zero_twin"):
            # rows 0 and 1 are the same point, written once with +0.0 and once with -0.0 in the first coordinate
            # (force_to_grid yields -0.0 for a candidate snapped onto 0 from below): numerically one candidate
            assert N >= 2
            U = U.astype(object) if eng.concrete else U
            for d in range(1, D):
                U[1, d] = U[0, d]
            U[0, 0] = 0.0
            U[1, 0] = -0.0
            if eng.concrete:
                U = U.astype(float)
        if infc:
            lb = lb.astype(object) if eng.concrete else lb
            ub = ub.astype(object) if eng.concrete else ub
            for d in infc:
                if d not in p.get("inf_keep_lo", ()):
                    lb[0, d] = -math.inf
                if d not in p.get("inf_keep_hi", ()):
                    ub[0, d] = math.inf
            if eng.concrete:
                lb = lb.astype(float)
                ub = ub.astype(float)
        cons_calls = []
        inv_calls = []

        class VT:
            def inverse_transf(self_, u):
                n = len(u)
                xo = sym_array(eng, f"xo{len(inv_calls)}", (n, D)) if n else np.zeros((0, D))
                inv_calls.append((snap(np.asarray(u)), snap(np.asarray(xo))))
                return xo

        def nbc(Xq):
            n = len(Xq)
            if cons == "bool":
                ans = [eng.boolean(f"viol{len(cons_calls)}_{i}") for i in range(n)]
                arr = np.array(ans, dtype=bool) if eng.concrete else (to_obj(np.array(ans, dtype=object)) if n else np.zeros((0,), dtype=bool))
            else:
                ans = [eng.real(f"cval{len(cons_calls)}_{i}") for i in range(n)]
                arr = np.array(ans, dtype=float) if eng.concrete else (to_obj(np.array(ans, dtype=object)) if n else np.zeros((0,)))
            cons_calls.append((snap(np.asarray(Xq)), ans))
            return arr

        fl = type("FL", (), {})()
        fl.X = X
        fl.X_max_idx = M - 1
        fl.variable_transformer = VT()
        R = cc(U, lb, ub, tol_mesh, fl, proj, nbc if cons else None)
        R = np.asarray(_raw(R))
        out = Out()
        out.tag = dict(rows=int(R.shape[0]), ncons=len(cons_calls))
        nR = R.shape[0]
        lbv, ubv = np.asarray(_raw(lb)), np.asarray(_raw(ub))
        Uv = np.asarray(_raw(U))
        # (a) inside the box
        out.ob("rows_inside_box", O.And(*[O.And(O.le(lbv[0, d], R[r, d]), O.le(R[r, d], ubv[0, d])) for r in range(nR) for d in range(D)]))
        # (e) every returned row is a (projected) input row
        def img(i):
            if proj:
                return [O.vmax(O.vmin(Uv[i, d], ubv[0, d]) if math.isfinite(_f(ubv[0, d])) else Uv[i, d], lbv[0, d])
                        if math.isfinite(_f(lbv[0, d])) else (O.vmin(Uv[i, d], ubv[0, d]) if math.isfinite(_f(ubv[0, d])) else Uv[i, d])
                        for d in range(D)]
            return [Uv[i, d] for d in range(D)]
        imgs = [img(i) for i in range(N)]
        inside = [O.And(*[O.And(O.le(lbv[0, d], Uv[i, d]), O.le(Uv[i, d], ubv[0, d])) for d in range(D)]) for i in range(N)]
        for r in range(nR):
            alts = [O.And(O.rows_eq(R[r], imgs[i], 0.0), True if proj else inside[i]) for i in range(N)]
            out.ob("rows_are_input_rows", O.Or(*alts))
        # (c) pairwise distinct
        for a in range(nR):
            for b in range(a):
                out.ob("rows_pairwise_distinct", O.Not(O.rows_eq(R[a], R[b], 0.0)))
        # (d) not already evaluated (rounded to tol_mesh/2)
        half = tol_mesh / 2.0
        if M and nR:
            Xv = np.asarray(_raw(X))
            for r in range(nR):
                for m in range(M):
                    same = O.And(*[O.eq(_rint(R[r, d] / half), _rint(Xv[m, d] / half), 0.0) for d in range(D)])
                    out.ob("not_already_evaluated", O.Not(same))
        # (b) the constraint oracle is respected
        if cons:
            out.ob("oracle_called_once", len(cons_calls) == 1 and len(inv_calls) == 1)
            if len(cons_calls) == 1 and len(inv_calls) == 1:
                Xq, ans = cons_calls[0]
                u_in, xo = inv_calls[0]
                out.ob("oracle_gets_inverse_transformed_rows", Xq.shape == xo.shape and O.And(*[O.eq(a, b, 0.0) for a, b in zip(Xq.ravel(), xo.ravel())]))
                feas = [O.Not(a) if cons == "bool" else O.le(a, 0) for a in ans]
                # returned rows are exactly the queried rows answered 'no violation', in order
                q = u_in.shape[0]
                for r in range(nR):
                    out.ob("returned_rows_feasible", O.Or(*[O.And(O.rows_eq(R[r], u_in[i], 0.0), feas[i]) for i in range(q)]))
                out.ob("feasible_count", O.eq(O.count(feas), nR, 0.0))
        return out


def _f(v):
    return 0.0 if isinstance(v, SV) else float(v)


def _rint(v):
    if isinstance(v, SV):
        return v.rint()
    return float(np.round(v))
