"""H-RF: _robust_gp_fit_ with a GP stub whose fit() fails with LinAlgError according to a symbolic schedule; the retry
loop of init_and_train_gp (cut from the AST) and the posterior-update fallback of local_gp_fitting.  Serves C16."""
import ast
import math
import textwrap

import numpy as np
import z3

from symnp import Engine, Rebinder, SV, SB, SIdx, SymArray, sym_array, to_obj, _raw
from symnp import ob as O
from symnp.explore import Out
from vf.common import Harness, snap, stubs, RngStub, cached_options, LoggerStub, col
from vf import astcut

import pybads.bads.gaussian_process_train as gptmod


class GPStub:
    """gpyreg.GP stand-in: fit()/update() raise LinAlgError on a symbolic schedule and enforce gpyreg's shape contract
    (_convert_shapes: y and s2 are reshaped to the number of rows of X -> ValueError on a mismatch)."""

    def __init__(self, eng, D, max_fail, log):
        self.eng, self.D, self.max_fail, self.log = eng, D, max_fail, log
        self.s2 = None
        self.bounds = {"noise_log_scale": (np.array([-5.0]), np.array([5.0]))}
        self.hyp = np.zeros((1, 3))
        self.temporary_data = {}
        self.nfail = [0]

    def __deepcopy__(self, memo):
        g = GPStub(self.eng, self.D, self.max_fail, self.log)
        g.s2 = None if self.s2 is None else self.s2.copy()
        g.X, g.y = getattr(self, "X", None), getattr(self, "y", None)
        g.nfail = self.nfail
        g.post_fail = self.post_fail
        g.bounds, g.hyp = dict(self.bounds), self.hyp.copy()
        g.lower_bounds, g.upper_bounds = self.lower_bounds.copy(), self.upper_bounds.copy()
        return g

    def _shapes(self, X, y, s2):
        N = X.shape[0]
        if y is not None and np.asarray(_raw(y)).size != N:
            raise ValueError(f"cannot reshape array of size {np.asarray(_raw(y)).size} into shape ({N},1)")
        if isinstance(s2, np.ndarray) and s2.size != N:
            raise ValueError(f"cannot reshape array of size {s2.size} into shape ({N},1)")

    def fit(self, X, y, s2=None, hyp0=None, options=None):
        self._shapes(X, y, s2)
        if X.shape[0] == 0:
            raise ValueError("zero-size array to reduction operation maximum which has no identity")   # gpyreg on an empty training set
        self.X, self.y = X, y     # gpyreg.GP.fit stores the data it was given
        if s2 is not None:
            self.s2 = s2
        self.log.append(("fit", snap(np.asarray(_raw(X))), snap(np.asarray(_raw(y))), None if s2 is None else snap(np.asarray(_raw(s2)))))
        if self.nfail[0] < self.max_fail and self.eng.choose("fail"):
            self.nfail[0] += 1
            raise np.linalg.LinAlgError("Matrix is not positive definite")
        return np.zeros((1, 3)) + len(self.log), None, "res"

    def get_bounds(self):
        return dict(self.bounds)

    def set_bounds(self, b):
        self.bounds = b
        lo, hi = b["noise_log_scale"]
        self.lower_bounds = np.concatenate([np.atleast_1d(_raw(lo)).ravel()[:1], self.lower_bounds[1:]])
        self.upper_bounds = np.concatenate([np.atleast_1d(_raw(hi)).ravel()[:1], self.upper_bounds[1:]])

    def hyperparameters_to_dict(self, h):
        h = np.atleast_2d(h)
        return [{"noise_log_scale": np.array([r[0]]), "rest": r[1:].copy()} for r in h]

    def hyperparameters_from_dict(self, d):
        return np.array([np.concatenate([np.atleast_1d(e["noise_log_scale"]), e["rest"]]) for e in d])

    def _posterior(self, what, may_fail=False):
        """gpyreg recomputes the posterior from self.X, self.y, self.s2: with user-provided noise a noise vector whose
        length differs from the rows of X fails to broadcast (ValueError, probed on the installed gpyreg); like a fit,
        the factorisation itself may fail (LinAlgError) on the symbolic schedule"""
        X, y, s2 = getattr(self, "X", None), getattr(self, "y", None), self.s2
        self.log.append((what, None if X is None else int(X.shape[0]), None if y is None else int(np.asarray(_raw(y)).shape[0]),
                         None if not isinstance(s2, np.ndarray) else int(s2.shape[0])))
        if X is not None and y is not None and np.asarray(_raw(y)).shape[0] != X.shape[0]:
            raise ValueError(f"operands could not be broadcast together with shapes ({X.shape[0]},) ({np.asarray(_raw(y)).shape[0]},)")
        if X is not None and isinstance(s2, np.ndarray) and s2.size and s2.shape[0] != X.shape[0]:
            raise ValueError(f"operands could not be broadcast together with shapes ({X.shape[0]},) ({s2.shape[0]},) ({X.shape[0]},)")
        if (self.post_fail or may_fail) and self.nfail[0] < self.max_fail and self.eng.choose("posterior_fails"):
            raise np.linalg.LinAlgError("Matrix is not positive definite")

    post_fail = False
    lower_bounds = np.full(3, -5.0)
    upper_bounds = np.full(3, 5.0)

    def _GP__gp_obj_fun(self, hyp, grad, swap):
        self._posterior("obj")
        return 0.0

    def set_hyperparameters(self, h, compute_posterior=True):
        self.hyp = np.atleast_2d(h)
        self.log.append(("set_hyp", compute_posterior))
        if compute_posterior:
            self._posterior("posterior", may_fail=True)

    def get_hyperparameters(self, as_array=True):
        return self.hyp


class HRobust(Harness):
    """params: N (training rows), D, noise (bool), max_fail (<= 10), symY (bool), slice (bool: option use_slice_sampler)"""
    name = "H-RF/robust"
    functions = (gptmod._robust_gp_fit_,)
    stubs_doc = ("gp.fit: LinAlgError on a symbolic schedule (one fresh Bool per attempt, up to max_fail failures); enforces gpyreg's row-count contract for X, y, s2",
                 "_get_random_samples_from_priors_: zeros", "cdist: exact (concrete or symbolic rows)")
    assumptions_doc = ("at most max_fail failing attempts (the statement's runs of 2-4 consecutive faults; ten failures in a row are outside)",)

    def case(self, eng):
        p = self.p
        N, D, noise, max_fail = p["N"], p["D"], p.get("noise", False), p.get("max_fail", 3)
        opts = cached_options(D, {})
        opts["use_slice_sampler"] = bool(p.get("slice", False))
        log = []

        class SliceSamplerStub:
            """gpyreg.slice_sample.SliceSampler stand-in: a slice sampler evaluates the log density at its start point"""
            def __init__(s, f_, x0, widths=None, LB=None, UB=None, *a, **k):
                s.f, s.x0 = f_, x0
                # the constructor's documented argument checks (gpyreg/slice_sample.py)
                for i in range(len(x0)):
                    if not (UB[i] >= LB[i]):
                        raise ValueError("All upper bounds UB need to be equal or greater than lower bounds LB.")
                    if widths[i] <= 0:
                        raise ValueError("The widths vector needs to be all positive real numbers.")
                    if x0[i] < LB[i] or x0[i] > UB[i]:
                        raise ValueError("The initial starting point X0 is outside the bounds.")

            def sample(s, n, burn=None):
                s.f(s.x0)
                return {"samples": [np.asarray(s.x0)]}
        st = {"pybads.bads.gaussian_process_train": dict(_get_random_samples_from_priors_=lambda gp_: np.zeros((1, 3)), SliceSampler=SliceSamplerStub)}
        rb = Rebinder(eng.concrete, stubs=stubs(**st))
        f = rb.func(gptmod._robust_gp_fit_)
        gp = GPStub(eng, D, max_fail, log)
        gp.post_fail = bool(p.get("slice", False))   # the sampler's density evaluation may fail like a fit (it is caught there)
        hyp0 = np.zeros((1, 3))
        if p.get("slice", False) and p.get("symhyp", False):
            # the noise hyper-parameter and its bounds are arbitrary: lb <= h <= ub, |.| <= 20, ub - lb >= 1
            h, lo, hi = eng.real("h_noise"), eng.real("lb_noise"), eng.real("ub_noise")
            if not eng.concrete:
                eng.assume(z3.And(lo.e >= -20, hi.e <= 20, lo.e <= h.e, h.e <= hi.e, hi.e - lo.e >= 1))
            mk = (lambda v: np.array([v], dtype=float)) if eng.concrete else (lambda v: to_obj(np.array([v], dtype=object)))
            gp.bounds = {"noise_log_scale": (mk(lo), mk(hi))}
            gp.set_bounds(gp.bounds)
            hyp0 = np.array([[h, 0.0, 0.0]], dtype=float) if eng.concrete else to_obj(np.array([[h, 0.0, 0.0]], dtype=object))
            gp.hyp = hyp0.copy()
        rng = np.random.RandomState(5)
        X = rng.uniform(-1, 1, size=(N, D)).round(3)
        Xc = X
        if p.get("symY", False):
            Y = sym_array(eng, "Y", (N, 1))
            if not eng.concrete:
                X = to_obj(X)    # a symbolic boolean mask must be able to index it
        else:
            Y = rng.uniform(0, 5, size=(N, 1)).round(3)
        s2 = np.full((N, 1), 0.25) if noise else None
        if s2 is not None and p.get("symY", False) and not eng.concrete:
            s2 = to_obj(s2)
        gp.s2 = None if s2 is None else s2.copy()
        gp.X, gp.y = X, Y      # local_gp_fitting installs the nearest-neighbour training set before the refit
        out = Out()
        err = None
        try:
            gp2, new_hyp, res, success = f(gp, X, Y, s2, hyp0, {}, {}, opts)
        except (ValueError, UnboundLocalError) as e:
            err = e
        fits = [l for l in log if l[0] == "fit"]
        out.tag = dict(attempts=len(fits), err=type(err).__name__ if err else None, rows=[int(l[1].shape[0]) for l in fits])
        out.ob("linalg_failures_do_not_abort", err is None)
        for l in fits:
            out.ob("attempt_arguments_row_consistent", l[1].shape[0] == l[2].shape[0] and (l[3] is None or l[3].shape[0] == l[1].shape[0]))
            out.ob("attempt_rows_are_training_rows", all(any(np.array_equal(np.asarray(r, dtype=float), x) for x in Xc) for r in l[1]))
            out.ob("noise_column_kept_iff_noise", (l[3] is not None) == noise)
        if err is None:
            # the GP handed back is conditioned on the full nearest-neighbour set, whatever the retries dropped privately
            out.ob("returned_gp_keeps_its_training_set", gp2.X is X and gp2.y is Y)
            out.ob("retries_until_success", len(fits) == gp.nfail[0] + 1)
            out.ob("success_flag_reports_failures", success == (1 if gp.nfail[0] == 0 else 0))
        return out


class HInitRetry(Harness):
    """init_and_train_gp as a whole (GP construction, prior set-up, training options and noise estimate are stubs): the
    retries of the initial fit; params: max_fail (<= 6)"""
    name = "H-RF/init"
    functions = (gptmod.init_and_train_gp,)
    stubs_doc = ("gpr.GP: GP stub whose fit raises LinAlgError on a symbolic schedule", "_gp_hyp, _get_gp_training_options, _get_fevals_data, "
                 "_estimate_noise_, mean/covariance pickers: constants", "_get_random_samples_from_priors_: zeros")

    def case(self, eng):
        import types
        p = self.p
        max_fail = p.get("max_fail", 4)
        log = []
        gp = GPStub(eng, 2, max_fail, log)
        gp.hyper_priors = {"mu": np.zeros(3)}
        X = np.zeros((3, 2)); Y = np.zeros((3, 1))
        gpr_stub = types.SimpleNamespace(GP=lambda **k: gp, noise_functions=types.SimpleNamespace(GaussianNoise=lambda **k: None))
        st = {"pybads.bads.gaussian_process_train": dict(
            _get_random_samples_from_priors_=lambda gp_: np.zeros((1, 3)), gpr=gpr_stub,
            _gp_hyp=lambda os_, o_, plb, pub, g, x, y, fl: (g, np.ones(3), 3),
            _get_gp_training_options=lambda *a, **k: dict(init_N=1, opts_N=1, n_samples=3),
            _get_fevals_data=lambda fl: (X, Y, None, None), _estimate_noise_=lambda g: 0.0,
            _meanfun_name_to_mean_function=lambda n: None, _cov_identifier_to_covariance_function=lambda n: None)}
        rb = Rebinder(eng.concrete, stubs=stubs(**st))
        f = rb.func(gptmod.init_and_train_gp)
        opts = cached_options(2, {})
        os_ = dict(gp_mean_fun="const", gp_cov_fun=1, gp_noisefun=[1, 0, 0], iter=-1)
        out = Out()
        err = None
        R = None
        try:
            R = f({}, os_, None, None, opts, np.full(3, -1.0), np.full(3, 1.0))
        except Exception as e:
            if type(e).__module__.startswith("symnp"):
                raise
            err = e
        fits = [l for l in log if l[0] == "fit"]
        out.tag = dict(attempts=len(fits), err=type(err).__name__ if err else None)
        out.ob("linalg_failures_do_not_abort", err is None)
        if err is None:
            # the GP handed to the optimiser has been fitted: the last attempt is the one that did not fail
            out.ob("retries_until_success", R[0] is gp and len(fits) == gp.nfail[0] + 1)
        return out


class HUpdate(Harness):
    """local_gp_fitting with refit_flag=False: the posterior update may fail with LinAlgError; params: noise (bool)"""
    name = "H-RF/update"
    functions = (gptmod.local_gp_fitting, gptmod.get_grid_search_neighbors)
    stubs_doc = ("gp.update: LinAlgError on a symbolic choice", "gp priors / hyper-parameters: plain dict and array stores")

    def case(self, eng):
        import gpyreg as gpr
        p = self.p
        noise = p.get("noise", False)
        D = 2
        opts = cached_options(D, {})
        opts["noise_size"] = 1.0
        opts["specify_target_noise"] = noise
        rb = Rebinder(eng.concrete, stubs=stubs())
        f = rb.func(gptmod.local_gp_fitting)
        rng = np.random.RandomState(3)
        N = 6
        fl = type("FL", (), {})()
        fl.X = rng.uniform(-1, 1, size=(N, D)); fl.Y = rng.uniform(0, 4, size=(N, 1))
        fl.S = sym_array(eng, "S", (N, 1))      # logged SDs: arbitrary positive reals (small ones included)
        if not eng.concrete:
            for v in _raw(fl.S).ravel():
                eng.assume(z3.And(v.e > 0, v.e <= 16))
        fl.X_max_idx, fl.noise_flag = N - 1, noise
        calls = []

        class GP:
            mean = gpr.mean_functions.ConstantMean()
            covariance = None
            temporary_data = dict(len_scale=1.0, effective_radius=1.0, poll_scale=np.ones(D))
            s2 = None

            def __init__(s):
                s.priors = {"noise_log_scale": ("gaussian", (0.0, 1.0)), "mean_const": ("gaussian", (0.0, 1.0)),
                            "covariance_log_lengthscale": ("gaussian", (0.0, 1.0)), "covariance_log_outputscale": ("gaussian", (0.0, 1.0))}
                s.hyp = np.array([[0.1, 0.2, 0.3]])

            def get_priors(s):
                return dict(s.priors)

            def set_priors(s, pr):
                s.priors = dict(pr)
                calls.append("set_priors")

            def get_hyperparameters(s, as_array=True):
                return s.hyp.copy()

            def set_hyperparameters(s, h, compute_posterior=True):
                s.hyp = np.atleast_2d(h).copy()
                calls.append("set_hyp")

            def update(s, hyp=None, **k):
                calls.append("update")
                if eng.choose("update_fails"):
                    calls.append("failed")
                    raise np.linalg.LinAlgError("singular")
        gp = GP()
        # the GP arrives with the training set of the previous fit (gpyreg keeps X, y, s2 as attributes): a stale
        # neighbourhood in another order, which the refit has to replace whatever happens afterwards
        gp.X, gp.y = fl.X[[4, 1, 5]].copy(), fl.Y[[4, 1, 5]].copy()
        if noise:
            gp.s2 = np.full((3, 1), 0.25)
        old_pr, old_h = gp.get_priors(), gp.get_hyperparameters()
        os_ = dict(lb=np.full((1, D), -3.0), ub=np.full((1, D), 3.0), plb=np.full((1, D), -1.0), pub=np.full((1, D), 1.0), scale=1.0,
                   periodic_vars=np.zeros((1, D), bool), mesh_size=0.25, search_mesh_size=2.0 ** -8)
        out = Out()
        err = None
        expX, expY, _exps2 = rb.func(gptmod.get_grid_search_neighbors)(fl, np.zeros(D), gp, opts, os_)
        expX, expY = np.array(expX, dtype=float), np.array(expY, dtype=float)
        try:
            g2, flag = f(gp, np.zeros(D), fl, opts, os_, None, False)
        except np.linalg.LinAlgError as e:
            err = e
        failed = "failed" in calls
        out.tag = dict(failed=failed, err=bool(err))
        out.ob("linalg_failures_do_not_abort", err is None)
        if err is None:
            out.ob("exit_flag_reports_failed_update", (flag == -2) == failed)
            if failed:
                out.ob("failed_update_restores_previous_model", g2.priors == old_pr and np.array_equal(g2.hyp, old_h))
            out.ob("training_set_is_logged_data", g2.X.shape[0] == g2.y.shape[0] and all(any(np.array_equal(r, x) for x in fl.X) for r in g2.X))
            # ... and it is the neighbourhood selected for THIS fit (nearest logged points, in distance order), also when the
            # posterior update failed and the previous hyper-parameters were restored
            out.ob("training_set_is_current_neighbourhood", np.array_equal(np.asarray(g2.X, dtype=float), expX)
                   and np.array_equal(np.asarray(g2.y, dtype=float).reshape(-1), expY.reshape(-1)))
            if noise:
                # the noise handed to the GP is the logged SD squared of the very row it accompanies
                s2v = np.asarray(_raw(g2.s2)).reshape(-1)
                Sv = np.asarray(_raw(fl.S)).reshape(-1)
                cs = [s2v.shape[0] == g2.X.shape[0]]
                for i_, r in enumerate(np.asarray(g2.X, dtype=float)):
                    j_ = [j for j in range(N) if np.array_equal(r, fl.X[j])]
                    cs.append(len(j_) == 1 and i_ < s2v.shape[0] and O.eq(s2v[i_], Sv[j_[0]] * Sv[j_[0]], 0.0))
                out.ob("training_noise_is_logged_sd_squared", O.And(*cs))
        return out


class HPriors(Harness):
    """_get_random_samples_from_priors_ (the resampling used by every retry): params: kinds (prior kind per hyper-parameter)"""
    name = "H-RF/priors"
    functions = (gptmod._get_random_samples_from_priors_,)
    stubs_doc = ("gp.get_priors: per hyper-parameter None (gpyreg returns None for an unset prior and for a Gaussian prior with a "
                 "non-finite mean - probed), a Gaussian prior with symbolic mean/sd, or a prior of another family",
                 "np.random.normal: fresh symbolic draw")

    def case(self, eng):
        p = self.p
        kinds = p["kinds"]
        names = ["covariance_log_lengthscale", "covariance_log_outputscale", "noise_log_scale", "mean_const"][:len(kinds)]
        eng.rng = RngStub(eng)
        rb = Rebinder(eng.concrete, stubs=stubs())
        f = rb.func(gptmod._get_random_samples_from_priors_)
        pri, hyp = {}, {}
        for nm, k in zip(names, kinds):
            hyp[nm] = np.array([0.25])
            if k == "none":
                pri[nm] = None
            elif k == "gauss":
                mu, sd = eng.real("mu_" + nm), eng.real("sd_" + nm)
                if not eng.concrete:
                    eng.assume(z3.And(mu.e >= -8, mu.e <= 8, sd.e > 0, sd.e <= 4))
                mk = (lambda v: np.array([v], dtype=float)) if eng.concrete else (lambda v: to_obj(np.array([v], dtype=object)))
                pri[nm] = ("gaussian", (mk(mu), mk(sd)))
            else:
                pri[nm] = ("student_t", (np.array([0.0]), np.array([1.0]), np.array([3.0])))

        class GP:
            def get_priors(s):
                return dict(pri)

            def get_hyperparameters(s, as_array=False):
                return [dict((k, v.copy()) for k, v in hyp.items())]

            def hyperparameters_from_dict(s, d):
                return np.array([np.concatenate([np.atleast_1d(_raw(d[k])).ravel() for k in names])]) if eng.concrete else \
                    to_obj(np.array([[np.atleast_1d(_raw(d[k])).ravel()[0] for k in names]], dtype=object))
        out = Out()
        r = f(GP())
        r = np.asarray(_raw(r))
        out.tag = dict(n=int(r.size))
        out.ob("resampled_vector_has_one_entry_per_hyperparameter", r.size == len(names))
        # C07: every random draw of the recovery path comes from the global generator the run seeded, never from a
        # private generator created without a seed (OS entropy)
        out.ob("recovery_draws_come_from_the_seeded_global_generator", not [s_ for s_ in getattr(eng.rng, "private", []) if s_ is None])
        for i, (nm, k) in enumerate(zip(names, kinds)):
            if k != "gauss":
                out.ob("hyperparameters_without_gaussian_prior_kept", O.eq(r.ravel()[i], 0.25, 0.0))
        return out
