"""H-GS: BADS._save_gp_stats_ and BADS._is_gp_refit_time_ with 0..3 recorded prediction statistics (real
IterationHistory), and BADS._get_target_from_gp_ with finite / non-finite GP predictions.  Serves C09 (rare internal
histories: value typing between logger, GP statistics and the incumbent)."""
import math

import numpy as np
import z3

from symnp import Engine, Rebinder, SV, SB, SymArray, sym_array, to_obj, _raw, arr1
from symnp import ob as O
from symnp.explore import Out
from vf.common import Harness, stubs, cached_options, LoggerStub, col

import pybads.bads.bads as badsmod
import pybads.utils.iteration_history as ihmod


class HGS(Harness):
    """params: D, n (number of saved stats), fc (func_count), arr (bool: the observed value arrives as a 1-element array)"""
    name = "H-GS/stats"
    functions = (badsmod.BADS._save_gp_stats_, badsmod.BADS._is_gp_refit_time_, ihmod.IterationHistory.record)
    stubs_doc = ("scipy.stats.shapiro: fresh symbolic p-value", "gammaincinv: real (concrete arguments)")

    def case(self, eng):
        p = self.p
        D, n, fc = p.get("D", 2), p["n"], p.get("fc", 30)
        opts = cached_options(D, {})

        class Sh:
            def __init__(s, z):
                s.pvalue = eng.fresh_real("pval")
        st = {"pybads.bads.bads": dict(shapiro=lambda z: Sh(z))}
        rb = Rebinder(eng.concrete, stubs=stubs(**st))
        B = rb.cls(badsmod.BADS)
        IH = rb.cls(ihmod.IterationHistory)
        s = B.__new__(B)
        s.D, s.options, s.logger = D, opts, LoggerStub()
        s.gp_stats = IH(["iter_gp", "fval", "ymu", "ys", "gp"])
        s.function_logger = type("FL", (), {"func_count": fc})()
        s.optim_state = dict(lastfitgp=p.get("lastfit", -np.inf))
        out = Out()
        for i in range(n):
            y = eng.real(f"y{i}")
            if p.get("arr") and i == n - 1:
                y = np.array([y]) if eng.concrete else arr1([y])   # what FunctionLogger returned for a merged observation
            mu, ys = eng.real(f"mu{i}"), eng.real(f"s{i}")
            if not eng.concrete:
                eng.assume(z3.And(ys.e >= 0, ys.e <= 64, mu.e >= -64, mu.e <= 64))
            s._save_gp_stats_(y, mu, ys)
        refit, calib = s._is_gp_refit_time_(opts["normalpha_level"])
        out.tag = dict(n=n, refit=bool(refit), calib=bool(calib))
        out.ob("refit_and_calibration_flags_are_booleans", isinstance(bool(refit), bool) and isinstance(bool(calib), bool))
        if bool(refit):
            out.ob("refit_resets_statistics", s.gp_stats.get("iter_gp") is None and s.optim_state["lastfitgp"] == fc)
        return out


class HTarget(Harness):
    """_get_target_from_gp_; params: level (0|1), pred ('fin'|'nan'|'inf')"""
    name = "H-GS/target"
    functions = (badsmod.BADS._get_target_from_gp_,)
    stubs_doc = ("gp.predict: finite symbolic or concrete non-finite prediction",)

    def case(self, eng):
        p = self.p
        level, pred, D = p.get("level", 1), p.get("pred", "fin"), 2
        opts = cached_options(D, {})
        rb = Rebinder(eng.concrete, stubs=stubs())
        B = rb.cls(badsmod.BADS)
        s = B.__new__(B)
        s.D, s.options, s.logger = D, opts, LoggerStub()
        fval = eng.real("fval")
        fsd = eng.real("fsd") if level else 0.0
        s.optim_state = dict(uncertainty_handling_level=level, fval=fval, fsd=fsd, sd_level=0.1)
        s.function_logger = type("FL", (), {"func_count": 20})()

        class GP:
            def __deepcopy__(g, memo):
                return g

            def set_hyperparameters(g, h):
                pass

            def predict(g, x):
                if pred == "fin":
                    m, v = eng.real("m"), eng.real("v")
                    if not eng.concrete:
                        eng.assume(z3.And(v.e >= 0, v.e <= 64))
                    return col([m], eng), col([v], eng)
                val = {"nan": math.nan, "inf": math.inf}[pred]
                return np.array([[val]]), np.array([[1.0]])
        out = Out()
        mu, sd, tgt = s._get_target_from_gp_(np.zeros(D), GP(), np.zeros(3))
        # the callers do: f_target_mu.item(), f_target.item()
        ok = True
        err = None
        try:
            a = mu.item()
            b = tgt.item()
        except AttributeError as e:
            ok = False
            err = str(e)
        out.tag = dict(pred=pred, ok=ok, err=err)
        out.ob("target_values_support_item_as_callers_require", ok)
        return out
