"""H-SB: BADS._update_search_bounds_ (symbolic internal box) and the whole BADS._init_optim_state_ (real
VariableTransformer, force_to_grid, grid_units) from a normalised problem definition with a symbolic starting point.

Serves C01 (search bounds rounded inwards, mesh-snapped x0 inside the box, constraint argument inside the box),
C02 (infeasible snapped x0 rejected before any target call).
"""
import math

import numpy as np
import z3

from symnp import Engine, Rebinder, SV, SB, SymArray, sym_array, to_obj, _raw
from symnp.values import as_int_term
from symnp import ob as O
from symnp.explore import Out
from vf.common import Harness, snap, stubs, RngStub, cached_options, LoggerStub

import pybads.bads.bads as badsmod
import pybads.search.grid_functions as gfmod
import pybads.variable_transformer.variables_transformer as vtmod


def on_mesh(v, mesh):
    if isinstance(v, SV):
        t = as_int_term(z3.simplify((v / mesh).r))
        return t is not None
    if not math.isfinite(v):
        return True
    return float(v / mesh) == round(float(v / mesh))


class HSBounds(Harness):
    """params: D, k (search mesh 2^k), inf (coords with infinite bounds)"""
    name = "H-SB/bounds"
    functions = (badsmod.BADS._update_search_bounds_, gfmod.force_to_grid)
    assumptions_doc = ("representation invariant of the transformer: lb_t <= -1, ub_t >= 1 (H-VT internal_box_contains_unit_box)",)

    def case(self, eng):
        p = self.p
        D, k, infc = p["D"], p["k"], tuple(p.get("inf", ()))
        mesh = 2.0 ** k
        rb = Rebinder(eng.concrete, stubs=stubs())
        B = rb.cls(badsmod.BADS)
        self_ = B.__new__(B)
        lb = sym_array(eng, "lb", (1, D))
        ub = sym_array(eng, "ub", (1, D))
        if not eng.concrete:
            for d in range(D):
                eng.assume(z3.And(lb[0, d].e <= -1, ub[0, d].e >= 1, lb[0, d].e >= -2 ** 10, ub[0, d].e <= 2 ** 10))
        if infc:
            lb, ub = lb.astype(object), ub.astype(object)
            for d in infc:
                lb[0, d], ub[0, d] = -math.inf, math.inf
            if eng.concrete:
                lb, ub = lb.astype(float), ub.astype(float)
        self_.optim_state = dict(lb=lb, ub=ub, search_mesh_size=mesh)
        lbs, ubs = self_._update_search_bounds_()
        lbs, ubs = np.asarray(_raw(lbs)), np.asarray(_raw(ubs))
        L, U = np.asarray(_raw(lb)), np.asarray(_raw(ub))
        out = Out()
        out.tag = dict(ok=True)
        for d in range(D):
            out.ob("search_bounds_inside_hard_box", O.And(O.le(L[0, d], lbs[0, d]), O.le(ubs[0, d], U[0, d])))
            out.ob("search_bounds_ordered", O.le(lbs[0, d], ubs[0, d]))
            out.ob("search_bounds_on_mesh", on_mesh(lbs[0, d], mesh) and on_mesh(ubs[0, d], mesh))
            if d not in infc:
                out.ob("search_bounds_within_one_mesh_step", O.And(O.lt(lbs[0, d] - L[0, d], mesh), O.lt(U[0, d] - ubs[0, d], mesh)))
        return out


GEOMS = {
    "affine": (-10.0, 10.0, -2.0, 6.0),
    "tight": (-1.0, 3.0, -1.0, 3.0),
    "unbounded": (-math.inf, math.inf, -3.0, 3.0),
    "log": (1e-3, 1e3, 1e-2, 1e1),
    "logtight": (1.0, 100.0, 1.0, 100.0),
    "offgrid": (-3.1415, 2.7183, -1.234, 1.777),
    "offgrid2": (-3.142, 2.8, -1.234, 1.777),   # both bounds need the inward nudge after snapping
}


class HSInit(Harness):
    """params: D, geom (name per coordinate), cons (None|'bool'), nonlinear (bool), user (noise-mode options as passed by a user)"""
    name = "H-SB/init"
    functions = (badsmod.BADS._init_optim_state_, gfmod.force_to_grid, gfmod.grid_units, vtmod.VariableTransformer.__call__,
                 vtmod.VariableTransformer.inverse_transf)
    stubs_doc = ("non_box_cons: fresh symbolic answer, argument recorded", "log/exp over-approximated with anchors at the concrete bounds")
    assumptions_doc = ("problem definition normalised by _bounds_check_ (H-BC): lb <= plb < pub <= ub, x0 strictly inside finite hard bounds",
                       "bounds are concrete (6 geometries: affine, tight, unbounded, log, log-tight, off-grid); the starting point is symbolic")

    def case(self, eng):
        p = self.p
        D = p["D"]
        geoms = p["geom"]
        cons = p.get("cons")
        user = dict(p.get("user") or {})     # noise-mode options exactly as a user would pass them
        opts = cached_options(D, dict(user, nonlinear_scaling=p.get("nonlinear", True)))
        rb = Rebinder(eng.concrete, stubs=stubs())
        B = rb.cls(badsmod.BADS)
        self_ = B.__new__(B)
        self_.D = D
        self_.options = opts
        self_.logger = LoggerStub()
        self_._random_seed = None
        g = [GEOMS[n] for n in geoms]
        self_.lower_bounds = np.array([[q[0] for q in g]])
        self_.upper_bounds = np.array([[q[1] for q in g]])
        self_.plausible_lower_bounds = np.array([[q[2] for q in g]])
        self_.plausible_upper_bounds = np.array([[q[3] for q in g]])
        x0 = sym_array(eng, "x0", (1, D))
        if not eng.concrete:
            for d in range(D):
                lo, hi = g[d][0], g[d][1]
                eng.assume(z3.And(x0[0, d].e > (lo if math.isfinite(lo) else -1e4), x0[0, d].e < (hi if math.isfinite(hi) else 1e4)))
        self_.x0 = x0
        held = [self_.lower_bounds, self_.upper_bounds, self_.plausible_lower_bounds, self_.plausible_upper_bounds]
        held_before = [a.copy() for a in held]
        cons_calls = []

        def nbc(X):
            X = np.atleast_2d(X)
            ans = [eng.fresh_bool("viol") for _ in range(X.shape[0])]
            cons_calls.append((snap(np.asarray(_raw(X))), ans))
            return np.array(ans) if eng.concrete else to_obj(np.array(ans, dtype=object))
        self_.non_box_cons = nbc if cons else None
        out = Out()
        err = None
        try:
            st = self_._init_optim_state_()
        except ValueError as e:
            err = e
        out.tag = dict(err=str(err)[:30] if err else None, ncons=len(cons_calls))
        out.ob("caller_bound_arrays_not_written", all(np.array_equal(a, b, equal_nan=True) for a, b in zip(held, held_before)))
        olb, oub = np.array([[q[0] for q in g]]), np.array([[q[1] for q in g]])
        for Xq, ans in cons_calls:
            for r in range(Xq.shape[0]):
                for d in range(D):
                    out.ob("constraint_argument_in_hard_box", O.And(O.le(olb[0, d], Xq[r, d]), O.le(Xq[r, d], oub[0, d])))
        if err is not None:
            if cons and "non-bound constraint" in str(err):
                out.ob("x0_rejection_only_if_oracle_violated", O.Or(*[a for _, ans in cons_calls for a in ans]))
            else:
                out.ob("valid_definition_not_rejected_by_init", False)
            return out
        if "user" in p and "poll_mesh_multiplier" not in user and "tol_mesh" not in user:
            want = 2 if user.get("specify_target_noise") else (1 if user.get("uncertainty_handling") else 0)
            out.ob("noise_mode_follows_user_options", st["uncertainty_handling_level"] == want)
        # the mesh tolerance used by the stopping test is the user's tolerance moved up to the next level of the mesh
        # ladder multiplier^k (the mesh only takes these values): never below the user's value, less than one level above
        mult, tol_user = float(opts["poll_mesh_multiplier"]), float(opts["tol_mesh"])
        tm = float(st["tol_mesh"])
        kk = math.log(tm) / math.log(mult)
        out.ob("tol_mesh_snapped_to_mesh_ladder", abs(kk - round(kk)) < 1e-9 and tm >= tol_user * (1 - 1e-12) and tm < tol_user * mult * (1 + 1e-12))
        if cons:
            out.ob("accepted_snapped_x0_feasible", O.And(*[O.Not(a) for _, ans in cons_calls for a in ans]))
            out.ob("snapped_x0_feasibility_checked", len(cons_calls) >= 1)
        mesh = st["search_mesh_size"]
        tl, tu = np.asarray(_raw(self_.lower_bounds)), np.asarray(_raw(self_.upper_bounds))
        U0 = np.asarray(_raw(self_.u))
        vt = self_.var_transf
        gx = np.asarray(_raw(vt(x0)))
        for d in range(D):
            out.ob("u0_in_internal_box", O.And(O.le(tl[0, d], U0[d]), O.le(U0[d], tu[0, d])))
            out.ob("u0_on_search_mesh", on_mesh(U0[d], mesh))
            out.ob("u0_within_one_mesh_step_of_x0", O.le(abs(U0[d] - gx[0, d]), 1.5 * mesh))
            out.ob("internal_bounds_are_transformed_bounds", O.And(O.eq(st["lb"][0, d], tl[0, d], 0.0), O.eq(st["ub"][0, d], tu[0, d], 0.0)))
        lbs, ubs = np.asarray(_raw(st["lb_search"])), np.asarray(_raw(st["ub_search"]))
        for d in range(D):
            out.ob("search_bounds_inside_hard_box", O.And(O.le(tl[0, d], lbs[0, d]), O.le(ubs[0, d], tu[0, d])))
        if cons and cons_calls:
            Xq = cons_calls[0][0]
            xo = np.asarray(_raw(vt.inverse_transf(np.atleast_2d(self_.u) if eng.concrete else self_.u.reshape(1, -1))))
            out.ob("constraint_argument_is_inverse_transform_of_u0", O.rows_eq(Xq[0], xo[0], 1e-9))
        out.ob("state_u_is_u0", O.rows_eq(np.asarray(_raw(st["u"])).ravel(), U0, 0.0))
        return out
