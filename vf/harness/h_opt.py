"""H-OPT: the option-loading sequence of BADS.__init__ (Options.__init__ on the basic file with the user's dict,
load_options_file on the advanced file, validate_option_names) with a symbolic value for one option name.  Serves C20."""
import copy
import os

import numpy as np
import z3

from symnp import Engine, Rebinder, SV, SB, SymArray, _raw
from symnp import ob as O
from symnp.explore import Out
from vf.common import Harness, stubs

import pybads.bads.bads as badsmod
import pybads.bads.options as optmod

CONF = os.path.dirname(badsmod.__file__) + "/option_configs/"
BASIC, ADV = CONF + "basic_bads_options.ini", CONF + "advanced_bads_options.ini"


def option_names():
    names = []
    for pth in (BASIC, ADV):
        names += [str(k) for k in optmod._read_config_file(pth)[:, 0]]
    return names


def same(a, b):
    if callable(a) and callable(b):
        return True
    if isinstance(a, np.ndarray) or isinstance(b, np.ndarray):
        try:
            return bool(np.array_equal(np.asarray(a, dtype=float), np.asarray(b, dtype=float), equal_nan=True))
        except Exception:
            return repr(a) == repr(b)
    if isinstance(a, float) and isinstance(b, float) and a != a and b != b:
        return True
    return type(a) == type(b) and (a == b or repr(a) == repr(b))


class HOPT(Harness):
    """params: name (option overridden with a symbolic value; None = unknown-name check), D, D2 (dimension of a second instance)"""
    name = "H-OPT"
    functions = (optmod.Options.__init__, optmod.Options.load_options_file, optmod.Options.validate_option_names, optmod._read_config_file)
    stubs_doc = ("none: the real .ini files of the current tree are loaded",)
    assumptions_doc = ("the overriding value is a non-zero real (tol_fun divides another default)",)

    def build(self, Opt, D, user):
        o = Opt(BASIC, evaluation_parameters={"D": D}, user_options=user)
        o.load_options_file(ADV, evaluation_parameters={"D": D})
        o.validate_option_names([BASIC, ADV])
        return o

    def case(self, eng):
        p = self.p
        name, D, D2 = p.get("name"), p.get("D", 2), p.get("D2", 3)
        rb = Rebinder(eng.concrete, stubs=stubs())
        Opt = rb.cls(optmod.Options)
        out = Out()
        if name is None:
            bad = p.get("bad", "tol_funn")
            user = {bad: 1}
            try:
                self.build(Opt, D, user)
                raised = False
            except ValueError:
                raised = True
            out.tag = dict(unknown=bad, raised=raised)
            out.ob("unknown_option_name_rejected", raised)
            return out
        v = eng.real("v")
        if not eng.concrete:
            eng.assume(z3.And(v.e >= 2.0 ** -20, v.e <= 2.0 ** 20))
        if p.get("caller") == "options":
            # the caller hands in the Options object of an earlier instance (a dict subclass) instead of a plain dict
            src = self.build(Opt, D, {name: v})
            keys0 = set(dict.keys(src))
            before = {k: (set(src[k]) if k == "useroptions" else src[k]) for k in keys0}
            new = self.build(Opt, D2, src)
            out.tag = dict(name=name, caller="options")
            same_vals = all(src[k] is before[k] for k in keys0 if k != "useroptions")
            out.ob("caller_options_object_unchanged", set(dict.keys(src)) == keys0 and same_vals and set(src["useroptions"]) == before["useroptions"])
            out.ob("instances_do_not_share_option_state", new["useroptions"] is not src["useroptions"])
            out.ob("user_value_takes_effect_exactly", new[name] is v or O.truth(O.eq(new[name], v, 0.0)) is True)
            out.ob("user_value_recorded_as_protected", name in new["useroptions"] and "useroptions" not in new["useroptions"])
            return out
        user = {name: v}
        user_before = dict(user)
        ref = self.build(Opt, D, None)            # no-override instance of the same dimension
        o = self.build(Opt, D, user)
        other = self.build(Opt, D2, None)         # a later instance of another dimension
        ref2 = self.build(Opt, D2, None)
        o_after = {k: o[k] for k in dict.keys(o)}
        out.tag = dict(name=name, n=len(dict.keys(o)))
        out.ob("user_value_takes_effect_exactly", o[name] is v or O.truth(O.eq(o[name], v, 0.0)) is True)
        out.ob("user_value_recorded_as_protected", name in o["useroptions"])
        out.ob("caller_dict_unchanged", user == user_before and len(user) == 1)
        # dependent defaults are derived from the supplied value
        eps = float(np.spacing(1.0))
        if name == "tol_fun":
            out.ob("dependent_defaults_follow_user_value", O.And(O.approx(o["tol_noise"], eps * v, 1e-12), O.approx(o["hedge_beta"] * v, 1e-3, 1e-12)))
        derived = {"tol_noise", "hedge_beta"} if name == "tol_fun" else set()
        diffs = [k for k in dict.keys(ref) if k not in (name, "useroptions") and k not in derived and not same(ref[k], o[k])]
        out.ob("other_options_keep_documented_defaults", not diffs and set(dict.keys(ref)) == set(dict.keys(o)))
        leaks = [k for k in dict.keys(ref2) if k != "useroptions" and not same(ref2[k], other[k])]
        out.ob("later_instance_sees_its_own_defaults", not leaks and name not in other["useroptions"])
        changed = [k for k in o_after if k != "useroptions" and not (o[k] is o_after[k])]
        out.ob("earlier_instance_unchanged_by_later_construction", not changed)
        # ---- process-history independence (C07).  One Rebinder = one process: it starts from the module/class state
        # pybads has right after import.  The same construction must give the same options in a fresh process and
        # after an unrelated history (an instance with a user override and one of another dimension built first).
        def sym_same(a, b):
            if isinstance(a, SV) or isinstance(b, SV):
                return O.eq(a, b, 0.0)
            return same(a, b)
        OptF = Rebinder(eng.concrete, stubs=stubs()).cls(optmod.Options)
        fresh = self.build(OptF, D, None)
        OptH = Rebinder(eng.concrete, stubs=stubs()).cls(optmod.Options)
        self.build(OptH, D, {name: v})
        self.build(OptH, D2, None)
        later = self.build(OptH, D, None)
        out.ob("defaults_independent_of_process_history",
               set(dict.keys(fresh)) == set(dict.keys(later)) and O.And(*[sym_same(fresh[k], later[k]) for k in dict.keys(fresh) if k != "useroptions"]))
        OptU = Rebinder(eng.concrete, stubs=stubs()).cls(optmod.Options)
        ufresh = self.build(OptU, D, {name: v})
        out.ob("user_instance_independent_of_process_history",
               set(dict.keys(ufresh)) == set(dict.keys(o)) and O.And(*[sym_same(ufresh[k], o[k]) for k in dict.keys(o) if k != "useroptions"]))
        return out
