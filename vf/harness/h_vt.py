"""H-VT: VariableTransformer construction, __call__, inverse_transf, maskindex.

Serves C11 (bijection, monotone, +-1 images, clamping, decade rule) and C01 (clamp lemma).
"""
import math

import numpy as np
import z3

from symnp import Engine, Rebinder, SV, SB, SymArray, sym_array, to_obj, _raw
from symnp import ob as O
from symnp.explore import Out
from vf.common import Harness, snap

import pybads.variable_transformer.variables_transformer as vtmod


class HVT(Harness):
    """params: D, nonlinear (bool), kinds: per coordinate 'fin' | 'inf' (unbounded hard bounds) |
    ['conc', lb, plb, pub, ub] (concrete bounds; used for log coordinates in mixed problems); dtype='int': the
    (all concrete, integer-valued) bounds are handed over as integer arrays"""
    name = "H-VT"
    functions = (vtmod.VariableTransformer.__init__, vtmod.VariableTransformer.__create_hypercube_trans__,
                 vtmod.VariableTransformer.__call__, vtmod.VariableTransformer.inverse_transf, vtmod.maskindex)
    stubs_doc = ("log/exp: uninterpreted with monotonicity, inverse and sign axioms instantiated per path (concrete arguments are evaluated)",)
    assumptions_doc = ("valid bound set: lb <= plb < pub <= ub per coordinate", "finite symbolic bounds and points have |v| <= 1e300 (float range)",
                       "real arithmetic: the 1e-9 rounding clause of the statement is outside the claim")

    def case(self, eng):
        p = self.p
        D, nonlinear = p["D"], p.get("nonlinear", True)
        kinds = p.get("kinds") or ["fin"] * D
        rb = Rebinder(eng.concrete)
        VT = rb.cls(vtmod.VariableTransformer)
        lb = sym_array(eng, "lb", (1, D)); ub = sym_array(eng, "ub", (1, D))
        plb = sym_array(eng, "plb", (1, D)); pub = sym_array(eng, "pub", (1, D))
        arrs = [lb, ub, plb, pub]
        if eng.concrete:
            arrs = [a.astype(object) for a in arrs]
        lb, ub, plb, pub = arrs
        for d, kd in enumerate(kinds):
            if kd == "inf":
                lb[0, d] = -math.inf; ub[0, d] = math.inf
            elif isinstance(kd, (list, tuple)) and kd[0] == "conc":
                lb[0, d], plb[0, d], pub[0, d], ub[0, d] = [float(v) for v in kd[1:5]]
        if not eng.concrete:
            for d in range(D):
                cs = []
                if isinstance(lb[0, d], SV):
                    cs += [lb[0, d].e <= plb[0, d].e, lb[0, d].e >= -1e300, ub[0, d].e <= 1e300, pub[0, d].e <= ub[0, d].e]
                if isinstance(plb[0, d], SV):
                    cs += [plb[0, d].e < pub[0, d].e, plb[0, d].e >= -1e300, pub[0, d].e <= 1e300]
                if cs:
                    eng.assume(z3.And(*cs))
        else:
            lb, ub, plb, pub = [a.astype(float) for a in (lb, ub, plb, pub)]
        if p.get("dtype") == "int":
            # integer-typed spelling of concrete integer bounds (what np.atleast_2d makes of a list of Python ints)
            assert all(isinstance(kd, (list, tuple)) and kd[0] == "conc" for kd in kinds)
            lb, ub, plb, pub = [np.asarray(_raw(a), dtype=float).astype(int) for a in (lb, ub, plb, pub)]
        o_lb, o_ub, o_plb, o_pub = [snap(a).astype(float) if p.get("dtype") == "int" else snap(a) for a in (lb, ub, plb, pub)]
        logflag = (np.full((1, D), np.nan) if eng.concrete else to_obj(np.full((1, D), np.nan))) if nonlinear else np.zeros((1, D))
        out = Out()
        try:
            vt = VT(D, lb, ub, plb, pub, logflag)
        except ValueError as e:
            out.tag = dict(ctor="ValueError")
            out.ob("ctor_accepts_valid_bounds", False)
            return out
        same_args = []
        for a_, o_ in ((lb, o_lb), (ub, o_ub), (plb, o_plb), (pub, o_pub)):
            same_args += [O.eq(x_, y_, 0.0) if (isinstance(x_, SV) or isinstance(y_, SV)) else (x_ == y_ or (x_ != x_ and y_ != y_))
                          for x_, y_ in zip(np.asarray(_raw(a_)).ravel(), o_.ravel())]
        out.ob("constructor_leaves_argument_arrays_unchanged", O.And(*same_args))
        alt = tuple(bool(v) for v in np.asarray(vt.apply_log_t).ravel())
        out.tag = dict(ctor="ok", log=list(alt))
        tl, tu, tpl, tpu = [np.asarray(_raw(a)) for a in (vt.lb, vt.ub, vt.plb, vt.pub)]
        for d in range(D):
            if nonlinear:
                rule = O.And(O.gt(o_lb[0, d], 0), O.gt(o_plb[0, d], 0), O.ge(o_pub[0, d], 10 * o_plb[0, d]))
            else:
                rule = False
            out.ob("log_iff_positive_decade", O.Iff(rule, alt[d]))
            out.ob("plausible_bounds_map_to_unit", O.And(O.le(abs(tpl[0, d] + 1), 1e-9), O.le(abs(tpu[0, d] - 1), 1e-9)))
            out.ob("internal_box_contains_unit_box", O.And(O.le(tl[0, d], -1 + 1e-9), O.ge(tu[0, d], 1 - 1e-9)))
            out.ob("original_bounds_kept", O.And(O.eq(np.asarray(_raw(vt.orig_lb))[0, d], o_lb[0, d], 0.0), O.eq(np.asarray(_raw(vt.orig_ub))[0, d], o_ub[0, d], 0.0)))
        if not p.get("points", True):
            return out
        # points: x, x2 anywhere (inside, on, outside the box)
        x = sym_array(eng, "x", (1, D)); x2 = sym_array(eng, "xb", (1, D))
        if not eng.concrete:
            for v in list(_raw(x).ravel()) + list(_raw(x2).ravel()):
                eng.assume(z3.And(v.e >= -1e300, v.e <= 1e300))
        u = np.asarray(_raw(vt(x))); u2 = np.asarray(_raw(vt(x2)))
        xr = np.asarray(_raw(vt.inverse_transf(vt(x))))
        yy = sym_array(eng, "yy", (1, D))
        if not eng.concrete:
            for v in _raw(yy).ravel():
                eng.assume(z3.And(v.e >= -1e6, v.e <= 1e6))
        xo = np.asarray(_raw(vt.inverse_transf(yy)))
        X, X2 = np.asarray(_raw(x)), np.asarray(_raw(x2))
        for d in range(D):
            ins = O.And(O.le(o_lb[0, d], X[0, d]), O.le(X[0, d], o_ub[0, d]))
            ins2 = O.And(O.le(o_lb[0, d], X2[0, d]), O.le(X2[0, d], o_ub[0, d]))
            out.ob("forward_output_in_internal_box", O.And(O.le_tol(tl[0, d], u[0, d]), O.le_tol(u[0, d], tu[0, d])))
            out.ob("inverse_output_in_original_box", O.And(O.le(o_lb[0, d], xo[0, d]), O.le(xo[0, d], o_ub[0, d])))
            out.ob("order_never_reversed", O.Implies(O.And(ins, ins2, O.lt(X[0, d], X2[0, d])), O.le(u[0, d], u2[0, d])))
            fin_box = (isinstance(o_lb[0, d], SV) or math.isfinite(o_lb[0, d])) and (isinstance(o_ub[0, d], SV) or math.isfinite(o_ub[0, d]))
            if fin_box:
                width = o_ub[0, d] - o_lb[0, d]
                out.ob("round_trip_within_1e-9_of_width", O.Implies(ins, O.le(abs(xr[0, d] - X[0, d]), 1e-9 * width)))
            else:
                out.ob("round_trip_within_1e-9_of_width", O.Implies(ins, O.le(abs(xr[0, d] - X[0, d]), 1e-9 * (1 + abs(X[0, d])))))
            if all(isinstance(v, SV) for v in (o_lb[0, d], o_plb[0, d], o_pub[0, d], o_ub[0, d])):
                # fully symbolic bounds: exact statements (strictly increasing, exact inverse) hold in real arithmetic
                out.ob("strictly_increasing_exact", O.Implies(O.And(ins, ins2, O.lt(X[0, d], X2[0, d])), O.lt(u[0, d], u2[0, d])))
                out.ob("round_trip_exact", O.Implies(ins, O.eq(xr[0, d], X[0, d], 1e-9)))
        return out
