"""H-TAIL: the statements of BADS.optimize() after the main loop (final selection among the recorded iterates, final
re-sampling of a noisy target, conversion to original coordinates) cut from the AST, up to and including the
construction of OptimizeResult (real OptimizeResult.set_attributes, real IterationHistory).

Serves C05 (final estimate), C04/C19 (truthful result, copies), C03 (exactly the reserved final samples), C01 (returned x
is the clamped inverse transform), C10 (fault propagation).
"""
import math

import numpy as np
import z3

from symnp import Engine, Rebinder, SV, SB, SIdx, SymArray, sym_array, to_obj, _raw, arr1
from symnp import ob as O
from symnp.explore import Out
from vf.common import Harness, snap, stubs, RngStub, cached_options, LoggerStub, TargetFault, FaultSite, TimerStub
from vf import astcut

import pybads.bads.bads as badsmod
import pybads.bads.optimize_result as ormod
import pybads.utils.iteration_history as ihmod


class HTAIL(Harness):
    """params: D, level (0|1|2), it (poll_iteration, concrete 0..3), nfs (noise_final_samples 0..3), fault, bounded(bool)"""
    name = "H-TAIL"
    functions = (badsmod.BADS.optimize, ormod.OptimizeResult.set_attributes, ormod.OptimizeResult.__setitem__, ihmod.IterationHistory.record)
    stubs_doc = ("function_logger: fresh symbolic observation (and SD under specified noise) per call; S, Xn of the log symbolic",
                 "_re_evaluate_history_: no-op (GP re-estimation of the history is outside)", "var_transf.inverse_transf: fresh symbolic vector (recorded)",
                 "timer, logging: no-op")
    assumptions_doc = ("iteration history holds it+1 recorded iterates with arbitrary symbolic u, yval, fval, fsd >= 0; logged row i is iterate i",)
    _cache = {}

    def unit(self, rb):
        src = open(badsmod.__file__).read()
        key = hash(src)
        if key not in HTAIL._cache:
            HTAIL._cache[key] = astcut.optimize_tail(src, badsmod.__dict__)
        code, names, l0, l1 = HTAIL._cache[key]
        g = rb.globals_for("pybads.bads.bads")
        exec(compile(code, f"<tail of optimize() {badsmod.__file__}:{l0}-{l1}>", "exec"), g)
        return g["_optimize_tail"]

    def case(self, eng):
        p = self.p
        D, level, it, nfs, fault = p["D"], p.get("level", 0), p.get("it", 2), p.get("nfs", 2), p.get("fault", False)
        fsite = FaultSite(p.get("fault_kind"))
        opts = cached_options(D, {})
        opts["noise_final_samples"] = nfs
        if p.get("budget_hit"):
            # a budget-terminated run: func_count (40 at entry) has reached options['max_fun_evals'], which for noisy
            # targets is the budget already reduced by the reserved final samples
            opts["max_fun_evals"] = 40
        opts["specify_target_noise"] = level == 2
        rb = Rebinder(eng.concrete, stubs=stubs())
        tail = self.unit(rb)
        B = rb.cls(badsmod.BADS)
        IH = rb.cls(ihmod.IterationHistory)
        self_ = B.__new__(B)
        self_.D = D
        self_.options = opts
        self_.logger = LoggerStub()
        n = it + 1
        H = IH(["u", "yval", "fval", "fsd", "gp", "gp_hyp_full"])
        gp = type("GP", (), {"__deepcopy__": lambda s_, memo: s_})()
        hyp = np.zeros(3)
        hu = [sym_array(eng, f"hu{i}", (D,)) for i in range(n)]
        hy = [eng.real(f"hy{i}") for i in range(n)]
        hf = [eng.real(f"hf{i}") for i in range(n)]
        hs = [eng.real(f"hs{i}") if level > 0 else 0.0 for i in range(n)]
        if not eng.concrete and level > 0:
            for v in hs:
                eng.assume(v.e >= 0)
        for i in range(n):
            H.record("u", hu[i], i); H.record("yval", hy[i], i); H.record("fval", hf[i], i); H.record("fsd", hs[i], i)
            H.record("gp", gp, i); H.record("gp_hyp_full", hyp, i)
        self_.iteration_history = H
        # current incumbent = last recorded iterate (loop record block, H-LB)
        self_.u = hu[-1].copy()
        self_.u_best = self_.u.copy()
        self_.yval, self_.fval, self_.fsd = hy[-1], hf[-1], hs[-1]
        self_.x0 = np.zeros((1, D))
        self_.mesh_size = 2.0 ** -7
        self_.non_box_cons = None
        bounded = p.get("bounded", True)
        self_.lower_bounds = np.full((1, D), -3.0 if bounded else -np.inf)
        self_.upper_bounds = np.full((1, D), 3.0 if bounded else np.inf)
        self_.optim_state = dict(uncertainty_handling_level=level, iter=it, termination_msg="msg-xyz", random_seed=11)
        S = [eng.real(f"S{i}") for i in range(n)] if level == 2 else None
        if S is not None and not eng.concrete:
            for v in S:
                eng.assume(v.e > 0)
        calls, inv_calls = [], []

        def target_fun(x):
            return 0.0

        level0 = p.get("level0", level)   # level configured at construction (0 = noise auto-detected later)

        class FL:
            func_count = 40
            total_fun_eval_time = 1.0
            fun = staticmethod(target_fun)
            Xn = n - 1
            X = None
            D_ = D
            noise_flag = level0 > 0
            uncertainty_handling_level = level0
            he_noise_flag = level0 == 2
            X_max_idx = n - 1

            def __call__(s, u, record_duplicate_data=True):
                if fault and eng.choose("fault"):
                    calls.append(None)
                    fsite.fire("target failed")
                y = eng.fresh_real("y")
                sd = None
                if level == 2:
                    sd = eng.fresh_real("ysd")
                    if not eng.concrete:
                        eng.assume(sd.e > 0)
                calls.append((snap(np.asarray(_raw(u))), y, sd, record_duplicate_data))
                s.func_count += 1
                return y, sd, None
        fl = FL()
        fl.X = np.vstack([np.asarray(_raw(h_), dtype=float if eng.concrete else object) for h_ in hu])
        if not eng.concrete:
            fl.X = to_obj(fl.X)
        if S is not None:
            fl.S = np.array(S).reshape(-1, 1) if eng.concrete else to_obj(np.array(S, dtype=object).reshape(-1, 1))
        self_.function_logger = fl

        class VT:
            def inverse_transf(s, u):
                xo = sym_array(eng, f"xo{len(inv_calls)}", (D,))
                inv_calls.append((snap(np.asarray(_raw(u))), snap(np.asarray(_raw(xo)))))
                return xo
        self_.var_transf = VT()
        reeval = []
        self_._re_evaluate_history_ = lambda g_: reeval.append(1)
        out = Out()
        exc = None
        R = None
        try:
            R = tail(self_, dict(poll_iteration=it, gp=gp, timer=TimerStub(), msg="msg-xyz"))
        except Exception as e:
            if not fsite.raised:
                raise
            exc = e
        out.tag = dict(calls=len(calls), exc=bool(exc))
        if fault:
            faulted = [i for i, c in enumerate(calls) if c is None]
            out.ob("fault_escapes_unchanged", (exc is not None) == bool(faulted) and fsite.escaped(exc))
            out.ob("no_call_after_fault", (not faulted) or faulted[0] == len(calls) - 1)
        if exc is not None:
            return out
        res = R["optimize_result"]
        noisy_final = level > 0 and it > 0
        exp_calls = nfs if noisy_final else 0
        out.ob("exactly_the_reserved_final_samples", len(calls) == exp_calls)
        out.ob("result_func_count_is_logger_count", res["func_count"] == fl.func_count and fl.func_count == 40 + len(calls))
        out.ob("result_message_and_seed", res["message"] == "msg-xyz" and res["random_seed"] == 11 and res["iterations"] == it)
        tt = {0: "deterministic", 1: "stochastic", 2: "stochastic (specified noise)"}[level]
        out.ob("result_target_type", res["target_type"] == tt)
        out.ob("result_problem_type", res["problem_type"] == ("bound constraints" if bounded else "unconstrained"))
        out.ob("result_mesh_size", res["mesh_size"] == self_.mesh_size)
        documented = {"fun", "non_box_cons", "x0", "x", "fval", "fsd", "yval_vec", "ysd_vec", "mesh_size", "func_count", "iterations", "message",
                      "problem_type", "target_type", "total_time", "overhead", "random_seed", "version", "success"}
        out.ob("result_has_exactly_the_documented_fields", documented <= set(dict.keys(res)) <= set(ormod.OptimizeResult._keys)
               and all(getattr(res, k) is res[k] for k in dict.keys(res)))
        # returned x = inverse transform of the final u
        U = np.asarray(_raw(self_.u))
        out.ob("x_is_inverse_transform_of_final_u", len(inv_calls) == 1 and O.And(O.rows_eq(inv_calls[0][0], U, 0.0),
                                                                                  O.rows_eq(np.asarray(_raw(res["x"])), inv_calls[0][1], 0.0)))
        out.ob("result_holds_copies", res["x"] is not self_.x and res["x0"] is not self_.x0)
        out.ob("result_fval_fsd_are_final_state", O.And(O.eq(res["fval"], self_.fval, 0.0), O.eq(res["fsd"], self_.fsd, 0.0)))
        if level == 0:
            out.ob("deterministic_result_is_last_iterate", O.And(O.rows_eq(U, np.asarray(_raw(hu[-1])), 0.0), O.eq(res["fval"], hf[-1], 0.0),
                                                                 O.eq(res["fsd"], 0, 0.0), res["yval_vec"] is None and res["ysd_vec"] is None))
            return out
        if not noisy_final:
            out.ob("no_reselection_before_first_poll", O.rows_eq(U, np.asarray(_raw(hu[-1])), 0.0))
            return out
        out.ob("history_re_evaluated_once", len(reeval) == 1)
        # selection: argmin over iterates >= 1 of fval + m * fsd
        from scipy.special import erfcinv
        m = float(np.sqrt(2) * erfcinv(2 * opts["final_quantile"]))
        q = [hf[i] + m * hs[i] for i in range(n)]
        sel = []
        for j in range(1, n):
            is_j = O.And(O.rows_eq(U, np.asarray(_raw(hu[j])), 0.0), O.And(*[O.le(q[j], q[i]) for i in range(1, n)]))
            sel.append(is_j)
        out.ob("returned_point_is_recorded_iterate_with_lowest_quantile", O.Or(*sel))
        for c in calls:
            out.ob("final_samples_at_returned_point_not_recorded", O.And(O.rows_eq(c[0], U, 0.0), c[3] is False))
        if nfs > 0:
            ys = [c[1] for c in calls]
            yv = np.asarray(_raw(self_.optim_state["yval_vec"])).ravel()
            if nfs == 1:
                exp = [ys[0], None]
                out.ob("yval_vec_is_fresh_sample_plus_earlier_observation",
                       len(yv) == 2 and O.And(O.eq(yv[0], ys[0], 0.0), O.Or(*[O.And(sel[j - 1], O.eq(yv[1], hy[j], 0.0)) for j in range(1, n)])))
            else:
                out.ob("yval_vec_is_the_fresh_samples", len(yv) == nfs and O.And(*[O.eq(yv[i], ys[i], 0.0) for i in range(nfs)]))
            k = len(yv)
            mean = O.vsum(list(yv)) / k
            out.ob("fval_is_mean_of_yval_vec", O.eq(self_.fval, mean, 1e-9))
            var = O.vsum([(v - mean) * (v - mean) for v in yv]) / k
            fs = self_.fsd
            out.ob("fsd_is_standard_error_of_yval_vec", O.And(O.ge(fs, 0), O.approx(fs * fs * k, var, 1e-9)))
            rv_ = res["yval_vec"]
            out.ob("result_yval_vec_is_copy", rv_ is not None and rv_ is not self_.optim_state["yval_vec"] and
                   np.asarray(_raw(rv_)).size == yv.size and
                   O.And(*[O.eq(a, b, 0.0) for a, b in zip(np.asarray(_raw(rv_)).ravel(), yv)]))
            if level == 2:
                sv = np.asarray(_raw(self_.optim_state["ysd_vec"])).ravel()
                sds = [c[2] for c in calls]
                out.ob("ysd_vec_holds_reported_sds", len(sv) >= nfs and O.And(*[O.eq(sv[i], sds[i], 0.0) for i in range(nfs)]))
                if nfs == 1:
                    out.ob("ysd_vec_second_entry_is_sd_logged_at_returned_point",
                           len(sv) == 2 and O.Or(*[O.And(O.rows_eq(np.asarray(_raw(hu[r])), U, 0.0), O.eq(sv[1], S[r], 0.0)) for r in range(n)]))
        else:
            out.ob("no_final_samples_keeps_history_estimate", O.Or(*[O.And(sel[j - 1], O.eq(self_.fval, hf[j], 0.0), O.eq(self_.fsd, hs[j], 0.0)) for j in range(1, n)]))
        return out
