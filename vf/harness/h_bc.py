"""H-BC: BADS.__init__ (real Options loading, _bounds_check_, x0 draw, constraint check of x0, FunctionLogger
construction).  _init_optim_state_ is a stub here (its own harness is H-SB; the transformer's second ordering check is
H-VT's obligation 'ctor_accepts_valid_bounds' on exactly the normalised bounds this harness proves to be ordered).

Serves C08 (exact validation), C02 (infeasible x0 rejected before any target call), C01 (x0 / constraint arguments in
the box), C07 (seeding protocol), C20 (caller arrays untouched).
"""
import math

import numpy as np
import z3

from symnp import Engine, Rebinder, SV, SB, SymArray, sym_array, to_obj, _raw, PathAbort
from symnp import ob as O
from symnp.explore import Out
from vf.common import Harness, snap, stubs, RngStub, normal_range

import pybads.bads.bads as badsmod

SPECIAL = {"-inf": -math.inf, "+inf": math.inf, "nan": math.nan}


def build_vec(eng, name, kinds, spell, D):
    """kinds: None (absent) or list per coordinate of 's' | '-inf' | '+inf' | 'nan'"""
    if kinds is None:
        return None, None
    vals = []
    for d in range(D):
        k = kinds[d]
        if k == "s":
            v = eng.real(f"{name}_{d}")
            if not eng.concrete:
                normal_range(eng, v, 2.0 ** -20, 2.0 ** 20)
            vals.append(v)
        elif isinstance(k, str) and k.startswith("int:"):
            vals.append(int(k[4:]))          # integer-typed spelling (python int / int64 array)
        else:
            vals.append(SPECIAL[k])
    allc = all(not isinstance(v, SV) for v in vals)
    alli = all(isinstance(v, int) for v in vals)
    if spell == "row":      # (1, D)
        a = np.empty((1, D), dtype=object)
        a[0, :] = vals
        arr = a.astype(int) if alli else (a.astype(float) if allc else a.view(SymArray))
    elif spell == "flat":   # (D,)
        a = np.empty((D,), dtype=object)
        a[:] = vals
        arr = a.astype(int) if alli else (a.astype(float) if allc else a.view(SymArray))
    elif spell == "list":
        arr = list(vals)
    elif spell == "tuple":
        arr = tuple(vals)
    elif spell == "scalar":
        arr = vals[0]
    else:
        raise ValueError(spell)
    return arr, vals


class HBC(Harness):
    """params: D, pat: dict x0/lb/ub/plb/pub -> None | list of kinds; spell: dict name -> spelling (default row);
    cons: None|'bool'|'real'; seed: None|'sym'; nonlinear: bool"""
    name = "H-BC"
    functions = (badsmod.BADS.__init__, badsmod.BADS._bounds_check_, badsmod.BADS._init_optim_state_, badsmod.BADS._init_random_seed_)
    stubs_doc = ("target fun: counts calls", "np.random: symbolic source (uniform draw in [plb, pub))", "logging: no-op",
                 "non_box_cons: fresh symbolic answer per call, arguments recorded")
    assumptions_doc = ("finite symbolic inputs are 0 or have magnitude in [2^-20, 2^20] (so that the floating-point replay can represent the separations the real-arithmetic model relies on)",)

    def case(self, eng):
        p = self.p
        D = p["D"]
        pat = p["pat"]
        spell = p.get("spell", {})
        cons = p.get("cons")
        rng = RngStub(eng, functional="A" if p.get("twice") else None)
        eng.rng = rng
        rb = Rebinder(eng.concrete, stubs=stubs())
        B = rb.cls(badsmod.BADS)
        marker = object()

        def init_optim_state_stub(self_):
            self_.var_transf = marker
            self_._random_seed_seen = self_._random_seed
            return {"uncertainty_handling_level": 0, "random_seed": self_._random_seed}
        B._init_optim_state_ = init_optim_state_stub
        ncalls = [0]

        def fun(x):
            ncalls[0] += 1
            return 0.0
        args, vals = {}, {}
        for nm in ("x0", "lb", "ub", "plb", "pub"):
            args[nm], vals[nm] = build_vec(eng, nm, pat.get(nm), spell.get(nm, "row"), D)
        before = {nm: (snap(np.asarray(_raw(a), dtype=object)) if isinstance(a, np.ndarray) else (list(a) if isinstance(a, (list, tuple)) else a))
                  for nm, a in args.items()}
        cons_calls = []

        def nbc(X):
            X = np.atleast_2d(X)
            n = X.shape[0]
            if cons == "bool":
                ans = [eng.fresh_bool("viol") for _ in range(n)]
            else:
                ans = [eng.fresh_real("cval") for _ in range(n)]
            cons_calls.append((snap(np.asarray(_raw(X))), ans))
            if eng.concrete:
                return np.array(ans)
            return to_obj(np.array(ans, dtype=object))
        user_opts = {}
        if p.get("seed") == "sym":
            sd = eng.integer("seed")
            if not eng.concrete:
                eng.assume(z3.And(sd.e >= 0, sd.e <= 2))
            user_opts["random_seed"] = sd
        if p.get("nonlinear") is False:
            user_opts["nonlinear_scaling"] = False
        user_before = dict(user_opts)
        out = Out()
        bads = None
        err = None
        try:
            bads = B(fun, args["x0"], args["lb"], args["ub"], args["plb"], args["pub"], non_box_cons=nbc if cons else None,
                     options=user_opts if user_opts else None)
        except ValueError as e:
            err = e
        # ------------------------------------------------------------------ oracle from the statement
        def vec(nm):
            return vals[nm]
        lbv = vec("lb") if vals["lb"] is not None else [-math.inf] * D
        ubv = vec("ub") if vals["ub"] is not None else [math.inf] * D
        plbv = vec("plb") if vals["plb"] is not None else (vec("lb") if vals["lb"] is not None else None)
        pubv = vec("pub") if vals["pub"] is not None else (vec("ub") if vals["ub"] is not None else None)
        x0v = vec("x0")
        dims_ok = not (x0v is None and (plbv is None or pubv is None))
        if x0v is not None and (plbv is None or pubv is None):
            # plausible bounds default to the hard bounds (infinite when those are absent too) -> not finite -> invalid
            plbv = plbv if plbv is not None else [-math.inf] * D
            pubv = pubv if pubv is not None else [math.inf] * D
        conds = [dims_ok]
        if dims_ok:
            for d in range(D):
                fin = lambda v: isinstance(v, SV) or math.isfinite(v)
                conds.append(fin(plbv[d]) and fin(pubv[d]))
                conds.append(O.And(O.le(lbv[d], plbv[d]), O.lt(plbv[d], pubv[d]), O.le(pubv[d], ubv[d])))
                conds.append(O.lt(lbv[d], ubv[d]))
                conds.append(fin(lbv[d]) == fin(ubv[d]))
                if x0v is not None and not (isinstance(x0v[d], float) and math.isnan(x0v[d])):
                    conds.append(O.And(O.le(lbv[d], x0v[d]), O.le(x0v[d], ubv[d])))
        valid = O.And(*conds)
        infeasible_x0 = False
        out.tag = dict(result="ValueError" if err else "ok", msg=(str(err).split(":")[1].strip()[:24] if err and ":" in str(err) else (str(err)[:24] if err else None)),
                       ncons=len(cons_calls))
        out.ob("target_never_called_by_constructor", ncalls[0] == 0)
        # caller's arrays are not written to
        same = []
        for nm, a in args.items():
            if isinstance(a, np.ndarray):
                now = np.asarray(_raw(a), dtype=object)
                same.append(now.shape == before[nm].shape and O.And(*[_same(x, y) for x, y in zip(now.ravel(), before[nm].ravel())]))
            elif isinstance(a, (list, tuple)):
                same.append(len(a) == len(before[nm]) and all(x is y for x, y in zip(a, before[nm])))
        out.ob("caller_arrays_unchanged", O.And(*same) if same else True)
        out.ob("caller_options_unchanged", user_opts == user_before)
        if cons:
            # feasibility answers: the constructor may reject a valid box definition when x0 is infeasible
            viol_any = O.Or(*[(a if cons == "bool" else O.gt(a, 0)) for _, ans in cons_calls for a in ans[:1]]) if cons_calls else False
        if err is not None:
            msg = str(err)
            if cons and ("non-bound constraint" in msg or "non_box_cons" in msg):
                # rejected because the (snapped) starting point is infeasible: some oracle answer was a violation
                out.ob("x0_rejection_only_if_oracle_violated", O.Or(*[(a if cons == "bool" else O.gt(a, 0)) for _, ans in cons_calls for a in ans]))
            else:
                out.ob("rejected_only_if_invalid", O.Not(valid))
            return out
        out.ob("accepted_only_if_valid", valid)
        olb, oub, oplb, opub = [np.asarray(_raw(a)) for a in (bads.lower_bounds, bads.upper_bounds, bads.plausible_lower_bounds, bads.plausible_upper_bounds)]
        X0 = np.asarray(_raw(bads.x0))
        shapes_ok = all(a.shape == (1, D) for a in (olb, oub, oplb, opub, X0))
        out.ob("normalised_shapes", shapes_ok)
        if not shapes_ok:
            return out
        for d in range(D):
            out.ob("normalised_order", O.And(O.le(olb[0, d], oplb[0, d]), O.lt(oplb[0, d], opub[0, d]), O.le(opub[0, d], oub[0, d])))
            out.ob("x0_strictly_inside", O.And(O.lt(olb[0, d], X0[0, d]), O.lt(X0[0, d], oub[0, d])))
            out.ob("hard_bounds_kept", O.And(_same(olb[0, d], lbv[d]), _same(oub[0, d], ubv[d])))
        if cons:
            x0_calls = [c for c in cons_calls if c[0].shape[0] == 1]
            out.ob("accepted_x0_feasible", O.And(*[O.Not(a if cons == "bool" else O.gt(a, 0)) for _, ans in x0_calls for a in ans]))
            out.ob("x0_feasibility_checked", len(x0_calls) >= 1 and O.Or(*[O.rows_eq(c_[0][0], X0[0], 0.0) for c_ in x0_calls]))
            for Xq, ans in cons_calls:
                for r in range(Xq.shape[0]):
                    for d in range(D):
                        out.ob("constraint_argument_in_hard_box", O.And(O.le(olb[0, d], Xq[r, d]), O.le(Xq[r, d], oub[0, d])))
        out.ob("logger_uses_instance_transformer", bads.function_logger.variable_transformer is marker)
        if p.get("twice"):
            # 2-safety: the same construction from a different prior generator state draws the same starting point
            rng2 = RngStub(eng, functional="B")
            eng.rng = rng2
            bads2 = B(fun, args["x0"], args["lb"], args["ub"], args["plb"], args["pub"], non_box_cons=None, options=dict(user_opts) if user_opts else None)
            eng.rng = rng
            seeded = "random_seed" in user_opts
            same_x0 = O.rows_eq(np.asarray(_raw(bads2.x0)).ravel(), X0.ravel(), 0.0)
            if seeded:
                out.ob("seeded_x0_draw_independent_of_prior_rng_state", same_x0)
            drew = any(d[0] == "uniform" for d in rng.draws)
            out.ob("rng_used_only_when_x0_missing", drew == (x0v is None or any(isinstance(v, float) and v != v for v in x0v)))
        if p.get("seed") == "sym":
            rs_ = bads.optim_state.get("random_seed")
            out.ob("seed_recorded", rs_ is not None and O.eq(rs_, user_opts["random_seed"], 0.0))
            first = rng.draws[0] if rng.draws else None
            out.ob("seeded_before_first_draw", first is not None and first[0] == "seed")
        return out


def _same(x, y):
    if isinstance(x, float) and isinstance(y, float) and math.isnan(x) and math.isnan(y):
        return True
    if not isinstance(x, SV) and not isinstance(y, SV):
        return x == y
    return O.eq(x, y, 0.0)


class HSobolSeed(Harness):
    """init_sobol's scrambling seed for concrete starting points (the arithmetic is string / uint64 manipulation, so the
    points are concrete): the seed must be a function of the starting point alone.  params: D, scale"""
    name = "H-BC/sobolseed"
    import importlib as _il
    _ismod = _il.import_module("pybads.init_functions.init_sobol")
    functions = (_ismod.init_sobol,)
    stubs_doc = ("scipy.stats.qmc.Sobol: records the seed it is constructed with", "builtin hash / id / time / os.urandom inside pybads code: "
                 "recorded as a process-dependent source (str/bytes hashes are salted per interpreter)")

    def case(self, eng):
        import importlib
        ismod = importlib.import_module("pybads.init_functions.init_sobol")
        p = self.p
        D, scale = p["D"], p.get("scale", 1.0)
        seeds, tainted = [], []

        class SobolStub:
            def __init__(s, d, seed=None, **k):
                seeds.append(seed)
                s.d = d

            def random_base2(s, m):
                return np.zeros((2 ** m, s.d))

        def hash_shim(obj):
            if isinstance(obj, (str, bytes, bytearray, memoryview)):
                tainted.append("hash(%s)" % type(obj).__name__)
                return 1234567
            return hash(obj)
        eng.rng = RngStub(eng)
        st = {"pybads.init_functions.init_sobol": dict(Sobol=SobolStub, hash=hash_shim, id=lambda o: tainted.append("id") or 1)}
        rb = Rebinder(eng.concrete, stubs=stubs(**st))
        f = rb.func(ismod.init_sobol)
        u0 = (np.arange(1, D + 1, dtype=float) * scale * (-1.0) ** np.arange(D))
        lb, ub = np.full((1, D), -1e3), np.full((1, D), 1e3)
        plb, pub = np.full((1, D), -1.0), np.full((1, D), 1.0)
        out = Out()
        r1 = f(u0.copy(), lb, ub, plb, pub, max(D, 2))
        r2 = f(u0.copy(), lb, ub, plb, pub, max(D, 2))
        out.tag = dict(seeds=[int(s) if s is not None else None for s in seeds])
        out.ob("sobol_seed_is_a_function_of_the_start_point", len(seeds) == 2 and seeds[0] == seeds[1] and seeds[0] is not None and 1 <= int(seeds[0]) <= 998)
        out.ob("no_process_dependent_source_in_seed", not tainted)
        out.ob("no_global_rng_draw_for_a_finite_start_point", not eng.rng.draws)
        return out
