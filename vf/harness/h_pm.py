"""H-PM: poll_mads_2n with a symbolic random source (entries symbolic integers, permutations enumerated).  Serves C14."""
import importlib
import itertools

import numpy as np
import z3

from symnp import Engine, Rebinder, SV, SB, SymArray, sym_array, _raw
from symnp import ob as O
from symnp.explore import Out
from vf.common import Harness, snap, stubs, RngStub

pmmod = importlib.import_module("pybads.poll.poll_mads_2n")


def det(A):
    n = len(A)
    if n == 1:
        return A[0][0]
    tot = 0
    for c in range(n):
        minor = [r[:c] + r[c + 1:] for r in A[1:]]
        term = A[0][c] * det(minor)
        tot = tot + term if c % 2 == 0 else tot - term
    return tot


class HPM(Harness):
    """params: D (<=3), ratio (search_mesh/mesh in {1,2,4}), scale ('one'|'sym')"""
    name = "H-PM"
    functions = (pmmod.poll_mads_2n,)
    stubs_doc = ("numpy.random.randint: fresh symbolic integers in the requested range; permutation: every order explored",)
    assumptions_doc = ("poll_scale positive",)

    def case(self, eng):
        p = self.p
        D, ratio = p["D"], p.get("ratio", 1)
        eng.rng = RngStub(eng, sym_ints=True)
        rb = Rebinder(eng.concrete, stubs=stubs())
        f = rb.func(pmmod.poll_mads_2n)
        if p.get("scale", "one") == "sym":
            ps = sym_array(eng, "ps", (D,))
            if not eng.concrete:
                for v in _raw(ps):
                    eng.assume(z3.And(v.e >= 2.0 ** -10, v.e <= 2.0 ** 10))
        else:
            ps = np.ones(D)
        mesh = 2.0 ** -3
        Bn = f(D, ps, mesh * ratio, mesh)
        Bn = np.asarray(_raw(Bn))
        out = Out()
        out.tag = dict(shape=list(Bn.shape))
        out.ob("two_D_directions", Bn.shape == (2 * D, D))
        if Bn.shape != (2 * D, D):
            return out
        psv = np.asarray(_raw(ps))
        # undo the poll-scale division exactly as the caller does (B * mesh * poll_scale) / mesh
        M = [[Bn[i, j] * psv[j] for j in range(D)] for i in range(D)]
        Mn = [[Bn[D + i, j] * psv[j] for j in range(D)] for i in range(D)]
        out.ob("second_half_is_negated_first_half", O.And(*[O.eq(Mn[i][j], -1 * M[i][j] if not isinstance(M[i][j], SV) else -M[i][j], 1e-12) for i in range(D) for j in range(D)]))
        n_max = max(1, int(round(ratio)))
        ints, bounded = [], []
        for i in range(D):
            for j in range(D):
                m = M[i][j]
                if isinstance(m, SV):
                    ints.append(z3.IsInt(m.e))
                else:
                    ints.append(float(m) == round(float(m)))
                bounded.append(O.And(O.le(-n_max, m), O.le(m, n_max)))
        out.ob("entries_are_integers", O.And(*ints))
        out.ob("entries_bounded_by_mesh_ratio", O.And(*bounded))
        out.ob("basis_is_nonsingular", O.ne(det(M), 0, 1e-9))
        if n_max == 1:
            rows = [O.eq(O.vsum([_abs(M[i][j]) for j in range(D)]), 1, 1e-9) for i in range(D)]
            cols = [O.eq(O.vsum([_abs(M[i][j]) for i in range(D)]), 1, 1e-9) for j in range(D)]
            out.ob("signed_coordinate_directions_when_ratio_one", O.And(*rows, *cols))
        return out


def _abs(v):
    return abs(v)
