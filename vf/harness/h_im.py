"""H-IM: BADS._init_optimization_ including _init_mesh_ (noise test, initial design through the real force_to_grid,
contraints_check and FunctionLogger, incumbent := argmin, budget reserve for the final noisy samples).

Serves C05 (noise test), C04 (initial incumbent), C03 (budget carve-out), C01/C02 (initial design filtered), C07
(re-seeding before the first draw), C10 (fault propagation).
"""
import math

import numpy as np
import z3

from symnp import Engine, Rebinder, SV, SB, SIdx, SymArray, sym_array, to_obj, _raw, arr1
from symnp import ob as O
from symnp.explore import Out
from vf.common import Harness, snap, stubs, RngStub, cached_options, LoggerStub, TargetFault, FaultSite, col

import pybads.bads.bads as badsmod
import pybads.function_logger.function_logger as flmod
import pybads.function_logger.constraints_check as ccmod


class HIM(Harness):
    """params: D, npts (sobol points returned by the stub), level0 (0|1|2 configured), B (budget), nfs, cons, fault, seed"""
    name = "H-IM"
    functions = (badsmod.BADS._init_optimization_, badsmod.BADS._init_mesh_, badsmod.BADS._init_random_seed_, ccmod.contraints_check,
                 flmod.FunctionLogger.__call__, flmod.FunctionLogger._record)
    stubs_doc = ("target: fresh symbolic value per call (two calls at the same point may differ: noisy target)",
                 "init_sobol: npts fresh symbolic points", "init_and_train_gp: GP stub", "display/log formatting: no-op",
                 "variable transformer: identity")
    assumptions_doc = ("starting point u inside the search box (H-SB)", "search box = [-4, 4]^D on the search mesh 2^-10")

    def case(self, eng):
        p = self.p
        D, npts, level0 = p["D"], p.get("npts", 2), p.get("level0", 0)
        Bud, nfs0 = p.get("B", 100), p.get("nfs", 10)
        cons, fault = p.get("cons"), p.get("fault", False)
        fsite = FaultSite(p.get("fault_kind"))
        user = {"max_fun_evals": Bud, "noise_final_samples": nfs0}
        if level0 == 1:
            user["uncertainty_handling"] = True
        if level0 == 2:
            user["specify_target_noise"] = True
            user["uncertainty_handling"] = True
        if p.get("seed"):
            user["random_seed"] = 7
        if p.get("noise_size") is not None:
            user["noise_size"] = p["noise_size"]          # a user-supplied noise size with a target BADS finds deterministic
        user_extra = dict(p.get("user_extra") or {})     # further options a user supplies explicitly
        user.update(user_extra)
        opts = cached_options(D, user)
        rng = RngStub(eng)
        eng.rng = rng
        calls, cons_calls = [], []

        def nbc(Xq):
            n = len(Xq)
            ans = [eng.fresh_bool("viol") for _ in range(n)]
            cons_calls.append((snap(np.asarray(_raw(Xq))), ans))
            if eng.concrete:
                return np.array(ans, dtype=bool)
            return to_obj(np.array(ans, dtype=object)) if n else np.zeros((0,), dtype=bool)

        def fun(x):
            rng.draws.append(("target_call",))     # a noisy target draws its noise from the global generator
            if fault and eng.choose("fault"):
                calls.append(None)
                fsite.fire("target failed")
            y = eng.fresh_real("y")
            calls.append((snap(np.asarray(_raw(x))), y))
            if level0 == 2:
                sd = eng.fresh_real("sd")
                if not eng.concrete:
                    eng.assume(sd.e > 0)
                return (y, sd)
            return y
        sob = []

        def sobol_stub(u0, lb, ub, plb, pub, n):
            pts = sym_array(eng, "sob", (npts, D))
            if not eng.concrete:
                for v in _raw(pts).ravel():
                    eng.assume(z3.And(v.e >= -8, v.e <= 8))
            sob.append(snap(np.asarray(_raw(pts))))
            return pts, npts
        gp_stub = type("GP", (), {"get_hyperparameters": lambda s, as_array=True: np.zeros(3)})()
        st = {"pybads.bads.bads": dict(init_sobol=sobol_stub, init_and_train_gp=lambda *a: (gp_stub, 0, 0.0, {}))}
        rb = Rebinder(eng.concrete, stubs=stubs(**st))
        B = rb.cls(badsmod.BADS)
        FL = rb.cls(flmod.FunctionLogger)
        self_ = B.__new__(B)
        self_.D = D
        self_.options = opts
        self_.logger = LoggerStub()
        self_.logging_action = []
        self_.non_box_cons = nbc if cons else None
        sms = 2.0 ** -10
        self_.lower_bounds = np.full((1, D), -4.5)
        self_.upper_bounds = np.full((1, D), 4.5)
        self_.plausible_lower_bounds = np.full((1, D), -1.0)
        self_.plausible_upper_bounds = np.full((1, D), 1.0)
        ui = sym_array(eng, "ui", (D,), integer=True)
        if not eng.concrete:
            for v in _raw(ui):
                eng.assume(z3.And(v.e >= -4096, v.e <= 4096))
        self_.u = ui * sms
        u0 = snap(np.asarray(_raw(self_.u)))
        self_.optim_state = dict(uncertainty_handling_level=level0, search_mesh_size=sms, mesh_size=1.0, tol_mesh=2.0 ** -19,
                                 lb_search=np.full((1, D), -4.0), ub_search=np.full((1, D), 4.0), cache_active=False, iter=-1)

        class VT:
            def inverse_transf(s, u):
                return u
        self_.var_transf = VT()
        self_.function_logger = FL(fun, D, level0 > 0, level0, cache_size=4, variable_transformer=None)
        self_.function_logger.variable_transformer = VT()
        self_.iteration_history = None
        self_._display_function_log_ = lambda *a: self_.display_format    # the real one formats with self.display_format
        self_._log_column_headers = lambda *a: None
        self_._setup_logging_display_format = lambda *a: ""
        out = Out()
        exc = None
        try:
            self_._init_optimization_()
        except Exception as e:
            if not fsite.raised:
                raise
            exc = e
        fl = self_.function_logger
        n_ok = len([c for c in calls if c is not None])
        lvl1 = self_.optim_state["uncertainty_handling_level"]
        out.tag = dict(calls=len(calls), exc=bool(exc), level=int(lvl1), Xn=int(fl.Xn))
        if fault:
            faulted = [i for i, c in enumerate(calls) if c is None]
            out.ob("fault_escapes_unchanged", (exc is not None) == bool(faulted) and fsite.escaped(exc))
            out.ob("no_call_after_fault", (not faulted) or faulted[0] == len(calls) - 1)
            out.ob("func_count_counts_valid_calls_only", fl.func_count == n_ok)
        if exc is not None:
            return out
        if p.get("seed"):
            out.ob("reseeded_before_first_draw", bool(rng.draws) and rng.draws[0] == ("seed", 7) and self_.optim_state["random_seed"] == 7)
            out.ob("reseeded_before_first_target_call", [d[0] for d in rng.draws if d[0] in ("seed", "target_call")][:1] == ["seed"])
        out.ob("func_count_is_number_of_target_calls", fl.func_count == len(calls))
        if user_extra:
            # C20: an option supplied by the user keeps exactly the supplied value
            out.ob("user_options_keep_their_values", all(opts[k] == v for k, v in user_extra.items()))
        # the GP training schedule (_get_gp_training_options) reads the size of the initial design from the state
        out.ob("initial_design_size_recorded", self_.optim_state.get("eff_starting_points") == fl.Xn + 1)
        # -- noise test ----------------------------------------------------------------------------------
        tol_noise = opts["tol_noise"]
        if level0 == 0:
            out.ob("noise_test_made", len(calls) >= 2 and O.rows_eq(calls[1][0], calls[0][0], 0.0))
            if len(calls) >= 2:
                out.ob("first_two_calls_at_start_point", O.And(O.rows_eq(calls[0][0], u0, 0.0), O.rows_eq(calls[1][0], u0, 0.0)))
                differ = O.gt(abs(calls[0][1] - calls[1][1]), tol_noise)
                out.ob("stochastic_iff_values_differ_more_than_tol_noise", O.Iff(differ, lvl1 == 1))
            design = calls[2:]
        else:
            out.ob("configured_noise_level_kept", lvl1 == level0)
            out.ob("first_call_at_start_point", len(calls) >= 1 and O.rows_eq(calls[0][0], u0, 0.0))
            design = calls[1:]
        # the noise-test repeat is not logged: log rows = first call + design points
        out.ob("noise_test_not_logged", fl.Xn + 1 == 1 + len(design) if level0 < 2 else fl.Xn + 1 <= 1 + len(design))
        # -- initial design: filtered against the search box and the oracle ---------------------------------
        out.ob("design_at_most_npts", len(design) <= npts)
        for a_ in range(len(design)):
            for b_ in range(a_):
                out.ob("design_points_pairwise_distinct", O.Not(O.rows_eq(design[a_][0], design[b_][0], 0.0)))
            out.ob("design_point_differs_from_start_point", O.Not(O.rows_eq(design[a_][0], u0, 0.0)) if False else True)
        for (xu, y) in design:
            out.ob("design_point_in_search_box", O.And(*[O.And(O.le(-4.0, xu[d]), O.le(xu[d], 4.0)) for d in range(D)]))
            if cons:
                out.ob("design_point_oracle_feasible", O.Or(*[O.And(O.rows_eq(Xq[r], xu, 0.0), O.Not(ans[r])) for Xq, ans in cons_calls for r in range(len(ans))]))
        # -- incumbent := argmin of the logged values ---------------------------------------------------------
        Y = np.asarray(_raw(fl.Y))[: fl.Xn + 1, 0]
        X = np.asarray(_raw(fl.X))[: fl.Xn + 1]
        out.ob("incumbent_value_is_minimum_of_log", O.And(*[O.le(self_.yval, v) for v in Y]))
        out.ob("incumbent_is_logged_pair", O.Or(*[O.And(O.rows_eq(np.asarray(_raw(self_.u)), X[i], 0.0), O.eq(self_.yval, Y[i], 0.0)) for i in range(len(Y))]))
        out.ob("u_best_is_u", O.rows_eq(np.asarray(_raw(self_.u_best)), np.asarray(_raw(self_.u)), 0.0))
        out.ob("fval_is_yval", O.eq(self_.fval, self_.yval, 0.0))
        # -- budget reserve ---------------------------------------------------------------------------------
        fc = fl.func_count
        if lvl1 > 0:
            nfs1, B1 = opts["noise_final_samples"], opts["max_fun_evals"]
            out.ob("reserve_is_min_of_setting_and_remaining", O.eq(nfs1, min(nfs0, Bud - fc), 0.0))
            out.ob("budget_plus_reserve_is_original_budget", O.eq(B1 + nfs1, Bud, 0.0))
            if fc <= Bud:
                out.ob("reserve_non_negative_and_design_within_reduced_budget_or_exhausted", nfs1 >= 0)
            if lvl1 == 2:
                S = np.asarray(_raw(fl.S))[: fl.Xn + 1, 0]
                out.ob("fsd_is_logged_sd_of_incumbent", O.Or(*[O.And(O.eq(self_.yval, Y[i], 0.0), O.eq(self_.fsd, S[i], 0.0)) for i in range(len(Y))]))
            else:
                out.ob("fsd_is_noise_size", self_.fsd == opts["noise_size"] and (p.get("noise_size") is None or self_.fsd == p["noise_size"]))
        else:
            out.ob("deterministic_fsd_zero", self_.fsd == 0.0 and opts["max_fun_evals"] == Bud)
        return out
