"""CrossHair-backed jobs: symbolic execution (z3) of pure-Python contract functions over the real pybads classes."""
import importlib
import os
import re
import subprocess
import sys
import time

HERE = os.path.dirname(os.path.abspath(__file__))


def run(spec, timeout_s=60):
    path = os.path.join(HERE, "crosshair_specs", spec + ".py")
    t0 = time.time()
    cmd = [sys.executable, "-W", "ignore", "-m", "crosshair", "check", "--report_all", "--per_condition_timeout", str(timeout_s), path]
    pr = subprocess.run(cmd, capture_output=True, text=True, cwd=os.path.dirname(path), env=dict(os.environ, PYTHONPATH=os.path.dirname(HERE)))
    lines = [l for l in (pr.stdout + pr.stderr).splitlines() if path in l]
    src = open(path).read().splitlines()

    def func_at(line):
        for i in range(line - 1, -1, -1):
            m = re.match(r"def (\w+)\(", src[i])
            if m:
                return m.group(1)
        return "?"
    res = dict(paths=0, feasible=0, infeasible=0, queries=0, solver_s=0.0, unknown=0, aborted=0, abort_reasons={}, ob_queries=0, discharged=0,
               trivially_true=0, labels={}, violations=[], known_hits=[], spurious=[], tags={}, xval_ok=0, xval_fail=[], samples=[], exceptions={},
               forks=0, exhausted=True)
    sys.path.insert(0, os.path.join(HERE, "crosshair_specs"))
    for l in lines:
        m = re.match(r".*?:(\d+): (\w+): (.*)", l)
        if not m:
            continue
        fn = func_at(int(m.group(1)))
        kind, msg = m.group(2), m.group(3)
        res["paths"] += 1
        L = res["labels"].setdefault(fn, dict(reached=0, discharged=0, violated=0))
        L["reached"] += 1
        if fn.startswith("witness"):
            # reachability twin: a counterexample to `post: False` must exist
            if kind == "error":
                res["xval_ok"] += 1
                L["discharged"] += 1
                res["feasible"] += 1
            else:
                res["aborted"] += 1
                res["abort_reasons"][f"twin {fn} not refuted: {msg}"] = 1
            continue
        res["ob_queries"] += 1
        if kind == "info" and "Confirmed over all paths" in msg:
            res["feasible"] += 1
            res["discharged"] += 1
            L["discharged"] += 1
            if len(res["samples"]) < 3:
                res["samples"].append(dict(contract=fn, verdict=msg))
        elif kind == "error":
            call = re.search(r"when calling (.*?)(?: \(which|$)", msg)
            call = call.group(1) if call else msg
            reproduced = False
            try:
                mod = importlib.import_module(spec)
                reproduced = eval(call, dict(mod.__dict__)) is not True
            except Exception as e:
                reproduced = True
            rec = dict(label=fn, model={"call": call}, tag=["crosshair"], replay={"status": "ok", "msg": msg}, exc=None, reproduced=reproduced, prefix=[])
            if reproduced:
                res["violations"].append(rec)
                L["violated"] += 1
            else:
                res["spurious"].append(rec)
        else:
            res["unknown"] += 1
            res["abort_reasons"][f"{fn}: {msg}"] = 1
    res["wall_s"] = time.time() - t0
    res["solver_s"] = res["wall_s"]
    res["functions"] = []
    res["stubs"] = []
    res["assumptions"] = ["crosshair-tool symbolic execution with per-condition timeout %ds; 'Confirmed over all paths' required" % timeout_s]
    res["leftover"] = []
    return res
