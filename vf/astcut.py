"""Cut loop bodies / function tails out of the AST of the *current* source and wrap them as callable units."""
import ast
import builtins
import textwrap


class PatternError(Exception):
    """the structural pattern no longer matches the source (check ends inconclusive)"""


def _method(tree, cls, name):
    for n in tree.body:
        if isinstance(n, ast.ClassDef) and n.name == cls:
            for m in n.body:
                if isinstance(m, ast.FunctionDef) and m.name == name:
                    return m
    raise PatternError(f"{cls}.{name} not found")


def _wrap(stmts, fname, module_globals):
    names = set()
    for st in stmts:
        for n in ast.walk(st):
            if isinstance(n, ast.Name):
                names.add(n.id)
    local_names = sorted(n for n in names if n not in module_globals and not hasattr(builtins, n) and n != "self")
    pre = "\n".join(f"    if '{n}' in _L: {n} = _L['{n}']" for n in local_names)
    body = textwrap.indent("\n".join(ast.unparse(s) for s in stmts), "    ")
    code = f"def {fname}(self, _L):\n{pre}\n{body}\n    _R = dict(locals())\n    return _R\n"
    return code, local_names


def main_loop_body(source, module_globals):
    """statements of the `while not is_finished:` loop of BADS.optimize"""
    tree = ast.parse(source)
    fn = _method(tree, "BADS", "optimize")
    loops = [n for n in ast.walk(fn) if isinstance(n, ast.While) and ast.unparse(n.test) == "not is_finished"]
    if len(loops) != 1:
        raise PatternError(f"expected exactly one `while not is_finished` loop in BADS.optimize, found {len(loops)}")
    lp = loops[0]
    code, names = _wrap(lp.body, "_loop_body", module_globals)
    return code, names, lp.lineno, lp.end_lineno


def optimize_tail(source, module_globals):
    """statements of BADS.optimize after the main loop up to (and including) the OptimizeResult construction"""
    tree = ast.parse(source)
    fn = _method(tree, "BADS", "optimize")
    idx = [i for i, n in enumerate(fn.body) if isinstance(n, ast.While) and ast.unparse(n.test) == "not is_finished"]
    if len(idx) != 1:
        raise PatternError("main loop not found at top level of BADS.optimize")
    tail = fn.body[idx[0] + 1:]
    end = None
    for i, st in enumerate(tail):
        if isinstance(st, ast.Assign) and "OptimizeResult(" in ast.unparse(st.value):
            end = i
            break
    if end is None:
        raise PatternError("OptimizeResult( construction not found after the main loop")
    stmts = tail[: end + 1]
    code, names = _wrap(stmts, "_optimize_tail", module_globals)
    return code, names, stmts[0].lineno, stmts[-1].end_lineno


def while_loop_in_function(source, func_name, test_src, fname):
    """a `while <test_src>:` loop statement inside a module-level function (returned as a unit incl. the loop)"""
    tree = ast.parse(source)
    fn = [n for n in tree.body if isinstance(n, ast.FunctionDef) and n.name == func_name]
    if not fn:
        raise PatternError(f"{func_name} not found")
    loops = [n for n in ast.walk(fn[0]) if isinstance(n, ast.While) and ast.unparse(n.test) == test_src]
    if len(loops) != 1:
        raise PatternError(f"expected one `while {test_src}` in {func_name}")
    return loops[0]
