"""CrossHair contracts for OptimizeResult (string-key clauses of C19).  Each function's postcondition is searched for
a counterexample by symbolic execution (symbolic str / int); 'witness_*' functions are reachability twins that must be
refuted."""
from pybads.bads.optimize_result import OptimizeResult


def or_unknown_key_rejected(key: str, val: int) -> bool:
    """
    pre: key not in OptimizeResult._keys
    post: __return__ == True
    """
    r = OptimizeResult()
    try:
        r[key] = val
    except ValueError:
        return len(r) == 0
    return False


def or_known_key_by_item_and_attribute(i: int, val: int) -> bool:
    """
    pre: 0 <= i < len(OptimizeResult._keys)
    post: __return__ == True
    """
    r = OptimizeResult()
    k = OptimizeResult._keys[i]
    r[k] = val
    return r[k] == val and getattr(r, k) == val and len(r) == 1 and list(r) == [k]


def or_update_rejects_unknown_keys(key: str, val: int) -> bool:
    """
    pre: key not in OptimizeResult._keys
    pre: len(key) <= 4
    post: __return__ == True
    """
    # the other writing methods of the mapping obey the same fixed set of fields
    r = OptimizeResult()
    try:
        r.update([(key, val)])
    except ValueError:
        return len(r) == 0
    return False


UNKNOWN_KEYS = ["", "X", "xx", "bogus", "fval ", "Fval", "status_", "x1", "useroptions"]


def or_setdefault_rejects_unknown_keys(j: int, val: int) -> bool:
    """
    pre: 0 <= j < len(UNKNOWN_KEYS)
    post: __return__ == True
    """
    # (a symbolic str as the key of a dict membership test is not explored exhaustively by CrossHair: concrete unknown names)
    r = OptimizeResult()
    key = UNKNOWN_KEYS[j]
    try:
        r.setdefault(key, val)
    except ValueError:
        return len(r) == 0
    return False


def or_update_stores_copies(i: int, a: int, b: int) -> bool:
    """
    pre: 0 <= i < len(OptimizeResult._keys)
    post: __return__ == True
    """
    r = OptimizeResult()
    k = OptimizeResult._keys[i]
    v = [a]
    r.update({k: v})
    v.append(b)
    return r[k] == [a]


UNKNOWN_ATTRS = ["xx", "X", "fvals", "f_val", "result", "iteration", "msg", "status_", "x1"]


def or_unknown_attribute_raises(j: int, i: int, val: int) -> bool:
    """
    pre: 0 <= j < len(UNKNOWN_ATTRS)
    pre: 0 <= i < len(OptimizeResult._keys)
    post: __return__ == True
    """
    r = OptimizeResult()
    r[OptimizeResult._keys[i]] = val
    try:
        getattr(r, UNKNOWN_ATTRS[j])
    except AttributeError:
        return True
    return False


def or_stored_value_is_a_copy(i: int, a: int, b: int) -> bool:
    """
    pre: 0 <= i < len(OptimizeResult._keys)
    post: __return__ == True
    """
    r = OptimizeResult()
    k = OptimizeResult._keys[i]
    v = [a, [b]]
    r[k] = v
    v[1][0] = b + 1
    v[0] = a + 1
    return r[k] == [a, [b]]


def witness_or(key: str, val: int) -> bool:
    """
    pre: key not in OptimizeResult._keys
    post: False
    """
    return True
