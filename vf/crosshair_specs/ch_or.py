"""CrossHair contracts for OptimizeResult (string-key clauses of C19).  Each function's postcondition is searched for
a counterexample by symbolic execution (symbolic str / int); 'witness_*' functions are reachability twins that must be
refuted."""
from pybads.bads.optimize_result import OptimizeResult


def or_unknown_key_rejected(key: str, val: int) -> bool:
    """
    pre: key not in OptimizeResult._keys
    post: __return__ == True
    """
    r = OptimizeResult()
    try:
        r[key] = val
    except ValueError:
        return len(r) == 0
    return False


def or_known_key_by_item_and_attribute(i: int, val: int) -> bool:
    """
    pre: 0 <= i < len(OptimizeResult._keys)
    post: __return__ == True
    """
    r = OptimizeResult()
    k = OptimizeResult._keys[i]
    r[k] = val
    return r[k] == val and getattr(r, k) == val and len(r) == 1 and list(r) == [k]


UNKNOWN_ATTRS = ["xx", "X", "fvals", "f_val", "result", "iteration", "msg", "status_", "x1"]


def or_unknown_attribute_raises(j: int, i: int, val: int) -> bool:
    """
    pre: 0 <= j < len(UNKNOWN_ATTRS)
    pre: 0 <= i < len(OptimizeResult._keys)
    post: __return__ == True
    """
    r = OptimizeResult()
    r[OptimizeResult._keys[i]] = val
    try:
        getattr(r, UNKNOWN_ATTRS[j])
    except AttributeError:
        return True
    return False


def or_stored_value_is_a_copy(i: int, a: int, b: int) -> bool:
    """
    pre: 0 <= i < len(OptimizeResult._keys)
    post: __return__ == True
    """
    r = OptimizeResult()
    k = OptimizeResult._keys[i]
    v = [a, [b]]
    r[k] = v
    v[1][0] = b + 1
    v[0] = a + 1
    return r[k] == [a, [b]]


def witness_or(key: str, val: int) -> bool:
    """
    pre: key not in OptimizeResult._keys
    post: False
    """
    return True
