"""CrossHair contracts for IterationHistory (index / overwrite clauses of C19)."""
from pybads.utils.iteration_history import IterationHistory

KEYS = ["a", "fval", "x"]
UNKNOWN = ["", "b", "A", "fval ", "xx", "iter"]


def ih_record_unknown_key_rejected(j: int, it: int) -> bool:
    """
    pre: 0 <= j < len(UNKNOWN)
    pre: 0 <= it < 4
    post: __return__ == True
    """
    h = IterationHistory(KEYS)
    try:
        h.record(UNKNOWN[j], 1, it)
    except ValueError:
        return all(h[k] is None for k in KEYS) and len(h) == len(KEYS)
    return False


def ih_record_then_overwrite(i: int, it: int, it2: int, v: int, w: int) -> bool:
    """
    pre: 0 <= i < 3
    pre: 0 <= it < 4 and 0 <= it2 < 4
    post: __return__ == True
    """
    h = IterationHistory(KEYS)
    k = KEYS[i]
    h.record(k, v, it)
    h.record(k, w, it2)
    ok = h[k][it2] == w and (it == it2 or h[k][it] == v) and len(h[k]) == max(it, it2) + 1
    untouched = all(h[k][j] is None for j in range(len(h[k])) if j not in (it, it2))
    others = all(h[q] is None for q in KEYS if q != k)
    return ok and untouched and others


def ih_negative_iteration_rejected(it: int) -> bool:
    """
    pre: it < 0
    post: __return__ == True
    """
    h = IterationHistory(KEYS)
    try:
        h.record("a", 1, it)
    except ValueError:
        return h["a"] is None
    return False


def ih_recorded_value_is_a_copy(it: int, a: int) -> bool:
    """
    pre: 0 <= it < 3
    post: __return__ == True
    """
    h = IterationHistory(KEYS)
    v = [a, [a]]
    h.record("x", v, it)
    v[1][0] = a + 1
    return h["x"][it] == [a, [a]]


def ih_setitem_column_is_a_deep_copy(a: int, b: int, n: int) -> bool:
    """
    pre: 1 <= n <= 3
    post: __return__ == True
    """
    # a whole column (object array of mutable values, as record() itself re-assigns it) is stored as a deep copy
    import numpy as np
    h = IterationHistory(KEYS)
    col = np.empty(n, dtype=object)
    src = [[a, i] for i in range(n)]
    for i in range(n):
        col[i] = src[i]
    h["x"] = col
    src[n - 1].append(b)
    col[0] = None
    return all(h["x"][i] == [a, i] for i in range(n))


def ih_update_operators_check_keys_and_copy(j: int, a: int, use_ior: bool) -> bool:
    """
    pre: 0 <= j < len(UNKNOWN)
    post: __return__ == True
    """
    # update() and the in-place union operator obey the same key check and copy semantics as item assignment
    h = IterationHistory(KEYS)
    v = [a]
    try:
        if use_ior:
            h |= {UNKNOWN[j]: v}
        else:
            h.update({UNKNOWN[j]: v})
    except ValueError:
        pass
    else:
        return False
    if use_ior:
        h |= {"x": v}
    else:
        h.update({"x": v})
    v.append(a)
    return len(h) == len(KEYS) and h["x"] == [a]


def ih_setitem_unknown_key_rejected(j: int) -> bool:
    """
    pre: 0 <= j < len(UNKNOWN)
    post: __return__ == True
    """
    h = IterationHistory(KEYS)
    try:
        h[UNKNOWN[j]] = 3
    except ValueError:
        return len(h) == len(KEYS)
    return False


def witness_ih(i: int, it: int) -> bool:
    """
    pre: 0 <= i < 3 and 0 <= it < 4
    post: False
    """
    h = IterationHistory(KEYS)
    h.record(KEYS[i], 1, it)
    return True
