"""CrossHair contracts for IterationHistory (index / overwrite clauses of C19)."""
from pybads.utils.iteration_history import IterationHistory

KEYS = ["a", "fval", "x"]
UNKNOWN = ["", "b", "A", "fval ", "xx", "iter"]


def ih_record_unknown_key_rejected(j: int, it: int) -> bool:
    """
    pre: 0 <= j < len(UNKNOWN)
    pre: 0 <= it < 4
    post: __return__ == True
    """
    h = IterationHistory(KEYS)
    try:
        h.record(UNKNOWN[j], 1, it)
    except ValueError:
        return all(h[k] is None for k in KEYS) and len(h) == len(KEYS)
    return False


def ih_record_then_overwrite(i: int, it: int, it2: int, v: int, w: int) -> bool:
    """
    pre: 0 <= i < 3
    pre: 0 <= it < 4 and 0 <= it2 < 4
    post: __return__ == True
    """
    h = IterationHistory(KEYS)
    k = KEYS[i]
    h.record(k, v, it)
    h.record(k, w, it2)
    ok = h[k][it2] == w and (it == it2 or h[k][it] == v) and len(h[k]) == max(it, it2) + 1
    untouched = all(h[k][j] is None for j in range(len(h[k])) if j not in (it, it2))
    others = all(h[q] is None for q in KEYS if q != k)
    return ok and untouched and others


def ih_negative_iteration_rejected(it: int) -> bool:
    """
    pre: it < 0
    post: __return__ == True
    """
    h = IterationHistory(KEYS)
    try:
        h.record("a", 1, it)
    except ValueError:
        return h["a"] is None
    return False


def ih_recorded_value_is_a_copy(it: int, a: int) -> bool:
    """
    pre: 0 <= it < 3
    post: __return__ == True
    """
    h = IterationHistory(KEYS)
    v = [a, [a]]
    h.record("x", v, it)
    v[1][0] = a + 1
    return h["x"][it] == [a, [a]]


def ih_setitem_unknown_key_rejected(j: int) -> bool:
    """
    pre: 0 <= j < len(UNKNOWN)
    post: __return__ == True
    """
    h = IterationHistory(KEYS)
    try:
        h[UNKNOWN[j]] = 3
    except ValueError:
        return len(h) == len(KEYS)
    return False


def witness_ih(i: int, it: int) -> bool:
    """
    pre: 0 <= i < 3 and 0 <= it < 4
    post: False
    """
    h = IterationHistory(KEYS)
    h.record(KEYS[i], 1, it)
    return True
