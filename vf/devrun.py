"""dev helper: run one harness job in-process and print the result"""
import sys, json, importlib, time
sys.path.insert(0, "/verif")
from symnp.explore import explore

def main():
    mod, cls = sys.argv[1].split(":")
    params = json.loads(sys.argv[2]) if len(sys.argv) > 2 else {}
    H = getattr(importlib.import_module("vf.harness." + mod), cls)(**params)
    known = json.loads(sys.argv[3]) if len(sys.argv) > 3 else ()
    r = explore(H, xval=5, known=known)
    v = r.pop("violations"); sp = r.pop("spurious"); xf = r.pop("xval_fail"); kh = r.pop("known_hits"); sm = r.pop("samples")
    print(json.dumps({k: r[k] for k in r if k not in ("tags", "leftover")}, indent=1, default=str))
    print("tags", r["tags"])
    print("VIOLATIONS", len(v), "spurious", len(sp), "xval_fail", len(xf), "known", len(kh))
    seen = set()
    for x in v[:50]:
        if x["label"] in seen: continue
        seen.add(x["label"]); print(" V", x["label"], json.dumps(x["model"])[:400], x["tag"])
    for x in sp[:3]:
        print(" SPURIOUS", x["label"], json.dumps(x["model"])[:300], json.dumps(x["replay"], default=str)[:600])
    for x in xf[:3]:
        print(" XVALFAIL", json.dumps(x, default=str)[:900])

main()
