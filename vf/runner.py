"""Parallel job runner: a job = (harness class, params); big jobs are split dynamically by decision prefix."""
import importlib
import json
import multiprocessing as mp
import os
import time
import traceback

from symnp.explore import explore, merge


def make_harness(spec, params):
    mod, cls = spec.split(":")
    return getattr(importlib.import_module("vf.harness." + mod), cls)(**params)


def _worker(job):
    try:
        if job["harness"].startswith("crosshair:"):
            from vf import crosshair_job
            r = crosshair_job.run(job["harness"].split(":", 1)[1], job["params"].get("timeout_s", 60))
            from vf.common import src_hash
            import pybads.bads.optimize_result as ormod, pybads.utils.iteration_history as ihmod
            r["functions"] = [src_hash(ormod.OptimizeResult.__setitem__), src_hash(ormod.OptimizeResult.__getattr__), src_hash(ihmod.IterationHistory.record),
                              src_hash(ihmod.IterationHistory.__setitem__), src_hash(ihmod.IterationHistory._expand_array)]
            return job, r, None
        H = make_harness(job["harness"], job["params"])
        r = explore(H, roots=job.get("roots"), max_paths=job.get("chunk", 400),
                    deadline=job.get("deadline"), timeout_ms=job.get("timeout_ms", 20000),
                    xval=job.get("xval", 2), known=job.get("known", ()), seed=job.get("seed", 0), labels=job.get("labels"),
                    second_solver_every=job.get("second_solver_every", 0))
        r["functions"] = H.encoded_functions()
        r["stubs"] = list(H.stubs_doc)
        r["assumptions"] = list(H.assumptions_doc)
        return job, r, None
    except BaseException as e:  # harness bug: never success
        return job, None, traceback.format_exc()


def _worker_send(job, conn):
    if os.environ.get("VERIF_DEBUG"):
        import faulthandler
        faulthandler.enable()
    try:
        conn.send(_worker(job))
    except BaseException:
        try:
            conn.send((dict(harness=job["harness"], params=job["params"], roots=job.get("roots")), None, traceback.format_exc()))
        except BaseException:
            pass
    finally:
        conn.close()


def job_key(job):
    return json.dumps([job["harness"], job["params"]], sort_keys=True)


def run_jobs(jobs, nproc=None, deadline=None, chunk=300, known=(), xval=2, timeout_ms=20000, seed=0, progress=None, labels=None,
             second_solver_every=0):
    """returns (results: key -> merged result, errors: list, timed_out: bool)"""
    nproc = nproc or min(16, os.cpu_count() or 4)
    ctx = mp.get_context("fork")
    results, errors = {}, []
    pending = []
    for j in jobs:
        j = dict(j)
        j.setdefault("roots", [[]])
        kn = [k for k in known if not k.get("job_filter") or eval(k["job_filter"], {"params": j["params"], "harness": j["harness"]})]
        j.update(chunk=chunk, deadline=deadline, known=kn, xval=xval, timeout_ms=timeout_ms, seed=seed,
                 labels=None if labels is None else sorted(labels), second_solver_every=second_solver_every)
        pending.append(j)
    timed_out = False
    # One forked process per job, managed directly (multiprocessing.Pool with maxtasksperchild=1 lost tasks under load:
    # idle workers, tasks still 'in flight', the check then waited for its time limit).  A fresh process per job also
    # gives every job a fresh z3 context (reproducible solver behaviour).
    running = {}   # pid -> (process, parent_conn, job, t_start)
    restarts = []

    def launch(j):
        pc, cc = ctx.Pipe(duplex=False)
        pr = ctx.Process(target=_worker_send, args=(j, cc), daemon=True)
        pr.start()
        cc.close()
        running[pr.pid] = (pr, pc, j, time.time())

    def handle(job, r, err):
        nonlocal timed_out
        k = job_key(job)
        if err is not None:
            errors.append(dict(job=dict(harness=job["harness"], params=job["params"]), error=err))
            return
        left = r.pop("leftover")
        base = results.get(k)
        if base is None:
            results[k] = r
            r["job"] = dict(harness=job["harness"], params=job["params"])
        else:
            merge(base, r)
        if left:
            if deadline and time.time() > deadline:
                timed_out = True
                results[k]["exhausted"] = False
                return
            # split the remaining prefixes over new jobs (later paths get no extra xval)
            nsplit = max(1, min(len(left), nproc))
            for i in range(nsplit):
                part = left[i::nsplit]
                if part:
                    nj = dict(job)
                    nj["roots"] = part
                    nj["xval"] = 1 if xval else 0
                    pending.append(nj)

    try:
        while pending or running:
            while pending and len(running) < nproc:
                launch(pending.pop())
            progressed = False
            for pid, (pr, pc, job, t0_) in list(running.items()):
                got = None
                try:
                    if pc.poll(0):
                        got = pc.recv()
                except (EOFError, OSError):
                    got = (job, None, f"worker {pid} closed its pipe without a result (exit code {pr.exitcode})")
                if got is None and not pr.is_alive():
                    # the process ended; a result may still be buffered in the pipe
                    try:
                        got = pc.recv() if pc.poll(0.2) else (job, None, f"worker {pid} died without a result (exit code {pr.exitcode})")
                    except (EOFError, OSError):
                        got = (job, None, f"worker {pid} died without a result (exit code {pr.exitcode})")
                if got is not None:
                    progressed = True
                    del running[pid]
                    pc.close()
                    pr.join(5)
                    if got[1] is None and "without a result" in str(got[2]) and not job.get("_retried"):
                        # the process was killed (z3 occasionally segfaults when a short model-search timeout cancels it
                        # under load): run the job once more in a fresh process; a second death is reported as a crash
                        nj = dict(job)
                        nj["_retried"] = True
                        pending.append(nj)
                        restarts.append(str(got[2]))
                        continue
                    handle(job, got[1], got[2])
                    if progress:
                        progress(results)
            if deadline and time.time() > deadline + 30:
                timed_out = True
                if os.environ.get("VERIF_DEBUG"):
                    for (_, _, j_, _) in running.values():
                        print("STILL RUNNING:", j_["harness"], json.dumps(j_["params"])[:300], "roots", len(j_["roots"]), flush=True)
                break
            if not progressed:
                time.sleep(0.01)
    finally:
        for pid, (pr, pc, job, t0_) in list(running.items()):
            pr.terminate()
            pr.join(2)
            if pr.is_alive():
                pr.kill()
    for k, r in results.items():
        r["exhausted"] = not timed_out
    if restarts and results:
        next(iter(results.values()))["worker_restarts"] = len(restarts)
    return results, errors, timed_out
