"""Parallel job runner: a job = (harness class, params); big jobs are split dynamically by decision prefix."""
import importlib
import json
import multiprocessing as mp
import os
import time
import traceback

from symnp.explore import explore, merge


def make_harness(spec, params):
    mod, cls = spec.split(":")
    return getattr(importlib.import_module("vf.harness." + mod), cls)(**params)


def _worker(job):
    try:
        if job["harness"].startswith("crosshair:"):
            from vf import crosshair_job
            r = crosshair_job.run(job["harness"].split(":", 1)[1], job["params"].get("timeout_s", 60))
            from vf.common import src_hash
            import pybads.bads.optimize_result as ormod, pybads.utils.iteration_history as ihmod
            r["functions"] = [src_hash(ormod.OptimizeResult.__setitem__), src_hash(ormod.OptimizeResult.__getattr__), src_hash(ihmod.IterationHistory.record),
                              src_hash(ihmod.IterationHistory.__setitem__), src_hash(ihmod.IterationHistory._expand_array)]
            return job, r, None
        H = make_harness(job["harness"], job["params"])
        r = explore(H, roots=job.get("roots"), max_paths=job.get("chunk", 400),
                    deadline=job.get("deadline"), timeout_ms=job.get("timeout_ms", 20000),
                    xval=job.get("xval", 2), known=job.get("known", ()), seed=job.get("seed", 0), labels=job.get("labels"),
                    second_solver_every=job.get("second_solver_every", 0))
        r["functions"] = H.encoded_functions()
        r["stubs"] = list(H.stubs_doc)
        r["assumptions"] = list(H.assumptions_doc)
        return job, r, None
    except BaseException as e:  # harness bug: never success
        return job, None, traceback.format_exc()


def job_key(job):
    return json.dumps([job["harness"], job["params"]], sort_keys=True)


def run_jobs(jobs, nproc=None, deadline=None, chunk=300, known=(), xval=2, timeout_ms=20000, seed=0, progress=None, labels=None,
             second_solver_every=0):
    """returns (results: key -> merged result, errors: list, timed_out: bool)"""
    nproc = nproc or min(16, os.cpu_count() or 4)
    ctx = mp.get_context("fork")
    results, errors = {}, []
    pending = []
    for j in jobs:
        j = dict(j)
        j.setdefault("roots", [[]])
        kn = [k for k in known if not k.get("job_filter") or eval(k["job_filter"], {"params": j["params"], "harness": j["harness"]})]
        j.update(chunk=chunk, deadline=deadline, known=kn, xval=xval, timeout_ms=timeout_ms, seed=seed,
                 labels=None if labels is None else sorted(labels), second_solver_every=second_solver_every)
        pending.append(j)
    timed_out = False
    inflight = 0
    done_q = []
    with ctx.Pool(nproc, maxtasksperchild=1) as pool:  # fresh z3 context per job: reproducible solver behaviour
        def submit(j):
            nonlocal inflight
            inflight += 1
            pool.apply_async(_worker, (j,), callback=done_q.append, error_callback=lambda e: done_q.append((j, None, repr(e))))
        while pending or inflight:
            while pending and inflight < nproc * 2:
                submit(pending.pop())
            if not done_q:
                time.sleep(0.01)
                if deadline and time.time() > deadline + 30:
                    timed_out = True
                    break
                continue
            job, r, err = done_q.pop()
            inflight -= 1
            k = job_key(job)
            if err is not None:
                errors.append(dict(job=dict(harness=job["harness"], params=job["params"]), error=err))
                continue
            left = r.pop("leftover")
            base = results.get(k)
            if base is None:
                results[k] = r
                r["job"] = dict(harness=job["harness"], params=job["params"])
            else:
                merge(base, r)
            if left:
                if deadline and time.time() > deadline:
                    timed_out = True
                    results[k]["exhausted"] = False
                    continue
                # split the remaining prefixes over new jobs (later paths get no extra xval)
                nsplit = max(1, min(len(left), nproc))
                for i in range(nsplit):
                    part = left[i::nsplit]
                    if part:
                        nj = dict(job)
                        nj["roots"] = part
                        nj["xval"] = 1 if xval else 0
                        pending.append(nj)
            if progress:
                progress(results)
        if timed_out:
            pool.terminate()
    for k, r in results.items():
        r["exhausted"] = not timed_out
    return results, errors, timed_out
