"""Shared pieces of the harnesses: stubs for logging/timers, option loading, base class."""
import hashlib
import inspect
import math
import os
import types

import numpy as np

from symnp import Engine, Rebinder, SV, SB, SymArray, sym_array, to_obj, _raw, _post
from symnp.explore import Out
from symnp import ob as O


class LoggerStub:
    level = 30

    def _n(self, *a, **k):
        pass
    warning = warn = info = error = debug = log = critical = exception = _n

    def setLevel(self, *a):
        pass

    def getEffectiveLevel(self):
        return 30


class LoggingModuleStub:
    """stands in for the `logging` module inside rebound code (formatting/log output is not the subject)"""
    DEBUG, INFO, WARN, WARNING, ERROR = 10, 20, 30, 30, 40
    _l = LoggerStub()

    def getLogger(self, *a):
        return self._l

    def basicConfig(self, *a, **k):
        pass

    def debug(self, *a, **k):
        pass
    info = warning = warn = error = debug


class TimerStub:
    def __init__(self):
        pass

    def start_timer(self, name):
        pass

    def stop_timer(self, name):
        pass

    def get_duration(self, name):
        return 0.25


def load_options(D, user=None):
    """the real Options object, loaded concretely from the repository's .ini files"""
    import pybads.bads.bads as badsmod
    from pybads.bads.options import Options
    p = os.path.dirname(badsmod.__file__) + "/option_configs/"
    o = Options(p + "basic_bads_options.ini", {"D": D}, dict(user) if user else None)
    o.load_options_file(p + "advanced_bads_options.ini", {"D": D})
    return o


def src_hash(fn):
    try:
        src, line = inspect.getsourcelines(fn)
        return dict(name=f"{fn.__module__}.{fn.__qualname__}", file=inspect.getsourcefile(fn), first_line=line,
                    last_line=line + len(src) - 1, sha256=hashlib.sha256("".join(src).encode()).hexdigest()[:16])
    except Exception as e:
        return dict(name=getattr(fn, "__qualname__", str(fn)), error=str(e))


def snap(a):
    """element snapshot of an array (symbolic elements are immutable terms)"""
    if a is None:
        return None
    return np.array(_raw(a), dtype=object, copy=True)


class Harness:
    name = "H-?"
    functions = ()  # real functions executed symbolically (for evidence)

    def __init__(self, **params):
        self.p = params

    def describe(self):
        return dict(harness=self.name, params=self.p)

    def case(self, eng):
        raise NotImplementedError

    def __call__(self, eng):
        return self.case(eng)

    def encoded_functions(self):
        return [src_hash(f) for f in self.functions]

    stubs_doc = ()
    assumptions_doc = ()


def normal_range(eng, v, lo=1e-300, hi=1e300):
    """finite symbolic inputs are 0 or have magnitude in [1e-300, 1e300] (DESIGN 2.2 iii)"""
    import z3
    if eng.concrete:
        return
    e = v.e
    eng.assume(z3.Or(e == 0, z3.And(e >= lo, e <= hi), z3.And(e <= -lo, e >= -hi)))
