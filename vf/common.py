"""Shared pieces of the harnesses: stubs for logging/timers, option loading, base class."""
import hashlib
import inspect
import math
import os
import types

import numpy as np

from symnp import Engine, Rebinder, SV, SB, SymArray, sym_array, to_obj, _raw, _post
from symnp.explore import Out
from symnp import ob as O


class LoggerStub:
    level = 30

    def _n(self, *a, **k):
        pass
    warning = warn = info = error = debug = log = critical = exception = _n

    def setLevel(self, *a):
        pass

    def getEffectiveLevel(self):
        return 30


class LoggingModuleStub:
    """stands in for the `logging` module inside rebound code (formatting/log output is not the subject)"""
    DEBUG, INFO, WARN, WARNING, ERROR = 10, 20, 30, 30, 40
    _l = LoggerStub()

    def getLogger(self, *a):
        return self._l

    def basicConfig(self, *a, **k):
        pass

    def debug(self, *a, **k):
        pass
    info = warning = warn = error = debug


class TimerStub:
    def __init__(self):
        pass

    def start_timer(self, name):
        pass

    def stop_timer(self, name):
        pass

    def get_duration(self, name):
        return 0.25


def load_options(D, user=None):
    """the real Options object, loaded concretely from the repository's .ini files"""
    import pybads.bads.bads as badsmod
    from pybads.bads.options import Options
    p = os.path.dirname(badsmod.__file__) + "/option_configs/"
    o = Options(p + "basic_bads_options.ini", {"D": D}, dict(user) if user else None)
    o.load_options_file(p + "advanced_bads_options.ini", {"D": D})
    return o


def src_hash(fn):
    try:
        src, line = inspect.getsourcelines(fn)
        return dict(name=f"{fn.__module__}.{fn.__qualname__}", file=inspect.getsourcefile(fn), first_line=line,
                    last_line=line + len(src) - 1, sha256=hashlib.sha256("".join(src).encode()).hexdigest()[:16])
    except Exception as e:
        return dict(name=getattr(fn, "__qualname__", str(fn)), error=str(e))


def snap(a):
    """element snapshot of an array (symbolic elements are immutable terms)"""
    if a is None:
        return None
    return np.array(_raw(a), dtype=object, copy=True)


class Harness:
    name = "H-?"
    functions = ()  # real functions executed symbolically (for evidence)

    def __init__(self, **params):
        self.p = params

    def describe(self):
        return dict(harness=self.name, params=self.p)

    def case(self, eng):
        raise NotImplementedError

    def __call__(self, eng):
        return self.case(eng)

    def encoded_functions(self):
        return [src_hash(f) for f in self.functions]

    stubs_doc = ()
    assumptions_doc = ()


def normal_range(eng, v, lo=1e-300, hi=1e300):
    """finite symbolic inputs are 0 or have magnitude in [1e-300, 1e300] (DESIGN 2.2 iii)"""
    import z3
    if eng.concrete:
        return
    e = v.e
    eng.assume(z3.Or(e == 0, z3.And(e >= lo, e <= hi), z3.And(e <= -lo, e >= -hi)))


DEFAULT_STUBS = {"*": {"logging": LoggingModuleStub(), "logger": LoggerStub(), "Timer": TimerStub}}


def stubs(**per_module):
    s = {"*": dict(DEFAULT_STUBS["*"])}
    for k, v in per_module.items():
        s[k] = v
    return s


class RngStub:
    """The legacy global NumPy generator as a symbolic source: every draw is a fresh symbolic value in the
    documented range; seed(s) is recorded.  Only this API exists inside rebound code (C07 discipline)."""

    def __init__(self, eng, sym_ints=False, functional=None):
        self.eng = eng
        self.state = ("unseeded",)
        self.draws = []
        self.sym_ints = sym_ints   # randint returns symbolic integers (no forking) instead of enumerating values
        # functional mode (2-safety for C07): a draw is the variable named by (generator state, draw index); the state is
        # "prior<tag>" until seed(s) is called, then "seed<s>".  Two executions from different prior states therefore
        # see the same draws exactly when the code seeded the generator before drawing.
        self.functional = functional
        self.fstate = None if functional is None else f"prior{functional}"
        self.k = 0

    def _draw_name(self, kind):
        self.k += 1
        return f"{kind}@{self.fstate}#{self.k}"

    def seed(self, s=None):
        self.state = ("seeded", s)
        self.draws.append(("seed", s))
        if self.functional is not None:
            self.fstate = f"seed[{s.e if hasattr(s, 'e') else s}]"
            self.k = 0

    # Private generators (np.random.default_rng / RandomState / Generator): allowed to exist, but one created without a
    # seed draws from OS entropy - options['random_seed'] cannot reach it.  Recorded; C07 obligations read `private`.
    def _private(self, seed=None, *a, **k):
        outer = self
        if not hasattr(self, "private"):
            self.private = []
        self.private.append(seed)
        self.draws.append(("private_generator", seed))

        class _Gen:
            def normal(s, loc=0.0, scale=1.0, size=None):
                return outer.normal(loc, scale, size)

            def standard_normal(s, size=None):
                return outer.normal(0.0, 1.0, size)

            def uniform(s, low=0.0, high=1.0, size=None):
                return outer.uniform(low, high, size)

            def random(s, size=None):
                return outer.uniform(0.0, 1.0, size)

            def integers(s, low, high=None, size=None, **kw):
                return outer.randint(low, high, size)

            randint = integers

            def permutation(s, x):
                return outer.permutation(x)
        return _Gen()

    default_rng = _private
    RandomState = _private

    def _arr(self, shape, mk):
        if shape is None or shape == ():
            return mk()
        shape = (shape,) if isinstance(shape, (int, np.integer)) else tuple(int(s) for s in shape)
        vals = np.empty(shape, dtype=object)
        for idx in np.ndindex(shape):
            vals[idx] = mk()
        if self.eng.concrete:
            return vals.astype(float)
        return vals.view(SymArray)

    def uniform(self, low=0.0, high=1.0, size=None):
        import z3
        eng = self.eng
        lo = np.broadcast_to(np.asarray(_raw(low), dtype=object), size if size is not None else np.shape(_raw(low)))
        hi = np.broadcast_to(np.asarray(_raw(high), dtype=object), size if size is not None else np.shape(_raw(high)))
        out = np.empty(lo.shape, dtype=object)
        for idx in np.ndindex(lo.shape):
            for b in (lo[idx], hi[idx]):
                if isinstance(b, (float, np.floating)) and not np.isfinite(b):
                    raise OverflowError("Range exceeds valid bounds")       # numpy.random.uniform (probed)
        for idx in np.ndindex(lo.shape):
            v = eng.real(self._draw_name("unif")) if self.functional is not None else eng.fresh_real("unif")
            if not eng.concrete:
                from symnp import lift
                eng.assume(z3.And(v.e >= lift(lo[idx]), v.e < lift(hi[idx])))
            out[idx] = v
        self.draws.append(("uniform", int(out.size)))
        return out.astype(float) if eng.concrete else out.view(SymArray)

    def rand(self, *shape):
        import z3
        eng = self.eng

        def mk():
            v = eng.fresh_real("rand")
            if not eng.concrete:
                eng.assume(z3.And(v.e >= 0, v.e < 1))
            return v
        self.draws.append(("rand", shape))
        return self._arr(shape if shape else None, mk)

    def normal(self, loc=0.0, scale=1.0, size=None):
        eng = self.eng
        self.draws.append(("normal", size))
        return self._arr(size, lambda: eng.fresh_real("norm")) * scale + loc

    def randn(self, *shape):
        return self.normal(size=shape if shape else None)

    def randint(self, low, high=None, size=None, dtype=int):
        """forks over every value (symbolic int realised), as the shapes/entries feed integer matrices"""
        eng = self.eng
        if high is None:
            low, high = 0, low
        lo, hi = int(low), int(high)
        self.draws.append(("randint", lo, hi, size))
        if self.sym_ints:
            import z3

            def mk():
                v = eng.fresh_int("rint")
                if not eng.concrete:
                    eng.assume(z3.And(v.e >= lo, v.e <= hi - 1))
                return v
            if size is None:
                return mk()
            shape = (size,) if isinstance(size, (int, np.integer)) else tuple(size)
            out = np.empty(shape, dtype=object)
            for idx in np.ndindex(shape):
                out[idx] = mk()
            return out.astype(int) if eng.concrete else out.view(SymArray)
        if size is None:
            return eng.choose_int("rint", lo, hi - 1)
        shape = (size,) if isinstance(size, (int, np.integer)) else tuple(size)
        out = np.empty(shape, dtype=int)
        for idx in np.ndindex(shape):
            out[idx] = eng.choose_int("rint", lo, hi - 1)
        return out

    def permutation(self, x):
        eng = self.eng
        if isinstance(x, (int, np.integer)):
            items = list(range(int(x)))
            arr = None
        else:
            arr = x
            items = list(range(len(x)))
        perm = []
        idx = list(items)
        while idx:
            j = eng.choose_int("perm", 0, len(idx) - 1) if len(idx) > 1 else 0
            perm.append(idx.pop(j))
        self.draws.append(("permutation", len(items)))
        if arr is None:
            return np.array(perm)
        return arr[perm]


_OPT_CACHE = {}


def cached_options(D, user=None):
    """a fresh copy of the real Options object for dimension D (files are parsed once per process)"""
    import copy
    key = (D, repr(sorted((user or {}).items(), key=str)))
    if key not in _OPT_CACHE:
        _OPT_CACHE[key] = load_options(D, user)
    o = copy.copy(_OPT_CACHE[key])
    o["useroptions"] = set(o["useroptions"])
    return o


class TargetFault(Exception):
    """sentinel raised by the logger/target stub at a symbolic call position (C10)"""


# the classes a user's target may derive its exception from: a handler in pybads that catches one of them (to retry, to
# re-word the message, ...) changes the type that reaches the caller of optimize() only for that family
FAULT_BASES = dict(exc=None, value=ValueError, linalg=np.linalg.LinAlgError, arith=FloatingPointError, lookup=KeyError,
                   runtime=RuntimeError, type=TypeError, os=OSError, assertion=AssertionError, attr=AttributeError, index=IndexError)
_FAULT_CLS = {}


def fault_class(kind):
    if kind in (None, "exc"):
        return TargetFault
    if kind not in _FAULT_CLS:
        _FAULT_CLS[kind] = type("TargetFault_" + kind, (TargetFault, FAULT_BASES[kind]), {})
    return _FAULT_CLS[kind]


class FaultSite:
    """raises the configured fault class at the positions the engine chooses and judges what left the unit"""

    def __init__(self, kind=None):
        self.cls = fault_class(kind)
        self.raised = []

    def fire(self, msg="target failed"):
        e = self.cls(msg)
        self.raised.append(e)
        raise e

    def escaped(self, exc):
        if not self.raised:
            return exc is None
        return exc is not None and type(exc) is type(self.raised[0])


def col(vals, eng):
    """(n,1) array of values"""
    a = np.empty((len(vals), 1), dtype=object)
    for i, v in enumerate(vals):
        a[i, 0] = v
    return a.astype(float) if eng.concrete else a.view(SymArray)
