#!/bin/bash
# Offline, idempotent: overlay venv on top of /venv (numpy, scipy, gpyreg, editable pybads -> /repo)
# with z3-solver / cvc5 / crosshair-tool / jsonschema from the local wheelhouse.
set -e
cd "$(dirname "$0")"
V=/verif/.venv
if [ ! -x "$V/bin/python" ] || ! "$V/bin/python" -c "import z3, numpy, pybads" >/dev/null 2>&1; then
  rm -rf "$V"
  /venv/bin/python -m venv "$V"
  echo "import site; site.addsitedir('/venv/lib/python3.12/site-packages')" > "$V/lib/python3.12/site-packages/_base.pth"
  PIP_NO_INDEX=1 "$V/bin/pip" install -q --no-index --find-links /opt/veriftools/wheels z3-solver cvc5 crosshair-tool jsonschema
fi
"$V/bin/python" -c "import z3, numpy, pybads, crosshair; print('setup ok: z3', z3.get_version_string(), 'numpy', numpy.__version__, 'pybads from', pybads.__file__)"
